"""C16 - protein grouping is a maximal-subset grouping with a consistent peptide
map, independent of FASTA entry order and of hash iteration order.

World E: seeded protein x peptide incidence structures rendered as FASTA with
target and prefixed decoy entries, parsed by read_fasta in this interpreter
(PYTHONHASHSEED=0) and in fresh interpreters with other hash seeds, under
several entry orders.  Oracle: grouping invariants per run + equality of the
canonical form across runs."""

from __future__ import annotations

import json
import os
import random
import subprocess
import sys
from pathlib import Path

from .. import datagen
from ..driver import clone, seeds_for
from ..util import digest

PROPERTY = "C16"
LEVEL = "exploration"
QUICK_N = 64
SCENARIO_TIMEOUT = 300
BATCH = 24
PROBES = ["chain_of_subsets", "contained_in_two", "equal_sets", "empty_protein", "shared_peptides",
          "target_decoy_shared_peptide", "missed_cleavages>0",
          "hash_seeds_compared", "orders_compared", "groups_with_>=3_members", "small_exhaustive_block"]
RULE = (
    "Each scenario is a batch of 24 seeded incidence structures (3-12 proteins x 3-12 token peptides; chains of subsets, a "
    "protein contained in two others, equal peptide sets, proteins without peptides; plus, in every 8th scenario, a block "
    "of consecutive structures from the exhaustive enumeration of <= 4 proteins x <= 4 peptides) rendered as FASTA with "
    "decoys; every structure is parsed under 3 entry orders in this interpreter and in 2 fresh interpreters with other "
    "PYTHONHASHSEEDs, with seeded digest parameters. Oracle: grouping invariants against the incidence given by "
    "mokapot.digest, and equality of the canonical grouping across all 9 runs. distinct = distinct structures x digest "
    "parameters; non-trivial = the structure has a subset relation, equal sets or a shared peptide."
)
ASSUMPTIONS = [
    "the protein -> peptide incidence is taken from mokapot.digest (C17's function) - C16 is about grouping given it",
    "two thirds of the structures use non-palindromic tokens (decoy peptides disjoint from target peptides); one third "
    "plants tokens with a palindromic interior, so that a decoy shares peptides with (or equals) its target",
    "'belongs to a protein group' is read as 'to at least one' (a protein contained in two maximal proteins is listed in both)",
    "the exhaustive <=4x4 space named in the quantifier is enumerated block-wise across scenarios; a quick run covers "
    "only some blocks (reported by probe small_exhaustive_block)",
]
REAL = ["mokapot.read_fasta", "mokapot.digest", "two extra CPython interpreters per scenario (PYTHONHASHSEED varied)"]
STUBS = []


def make_scenario(seed, index=0):
    rng = random.Random(seed)
    return {
        "property": PROPERTY, "seed": seed, "index": index,
        "struct_seeds": [rng.getrandbits(32) for _ in range(BATCH)],
        "exhaustive_block": (index // 8) if index % 8 == 0 else None,
        "orders": [rng.getrandbits(16) for _ in range(3)],
        "hash_seeds": [rng.randint(1, 4_000_000_000) for _ in range(2)],
        "digest": {"missed_cleavages": rng.choice([0, 0, 1, 2]), "min_length": rng.choice([6, 7]), "max_length": 50},
        "only": None,
    }


def scenarios(tier, batch_seed):
    for i, s in seeds_for(PROPERTY, batch_seed):
        yield make_scenario(s, i)


def _small_structs(block, count=BATCH):
    """Block `block` of the enumeration of all incidence matrices with p<=4 proteins and q<=4 peptides."""
    toks = ["ACDEFGK", "HILMNPK", "QSTVWYK", "CEGILNK"]
    out = []
    idx = 0
    start = block * count
    for p in range(1, 5):
        for q in range(1, 5):
            for code in range(2 ** (p * q)):
                if start <= idx < start + count:
                    prots = {}
                    for i in range(p):
                        prots[f"P{i:02d}"] = [toks[j] for j in range(q) if (code >> (i * q + j)) & 1]
                    out.append({"proteins": prots, "tokens": toks[:q]})
                idx += 1
                if idx >= start + count:
                    return out
    return out


def build_structs(scn):
    structs = []
    if scn.get("exhaustive_block") is not None:
        structs = _small_structs(scn["exhaustive_block"])
    for i, s in enumerate(scn["struct_seeds"][: BATCH - len(structs)]):
        # every third structure has tokens whose decoy equals the target (targets and decoys then share peptides)
        structs.append(datagen.gen_incidence(random.Random(s), palindromes=0.4 if i % 3 == 2 else 0.0))
    if scn.get("only") is not None:
        structs = [structs[scn["only"]]]
    return structs


def canonical(proteins):
    groups = set(proteins.peptide_map.values())
    for v in proteins.shared_peptides.values():
        groups.update(v.split("; "))
    pm = {pep: tuple(sorted(g.split(", "))) for pep, g in proteins.peptide_map.items()}
    return {
        "groups": sorted(tuple(sorted(g.split(", "))) for g in groups),
        "peptide_map": sorted(pm.items()),
        "shared": sorted(proteins.shared_peptides),
        "shared_groups": sorted((pep, sorted(tuple(sorted(g.split(", "))) for g in v.split("; ")))
                                for pep, v in proteins.shared_peptides.items()),
        "protein_map": sorted(proteins.protein_map.items()),
    }


def parse_all(structs, orders, digest_kw, workdir):
    """read_fasta for every structure x entry order; returns list of lists of canonical forms (or error strings)."""
    import mokapot

    out = []
    os.makedirs(workdir, exist_ok=True)
    for si, st in enumerate(structs):
        names = list(st["proteins"])
        per = []
        for oi, oseed in enumerate(orders):
            order = list(range(len(names)))
            random.Random(oseed * 7919 + si).shuffle(order)
            entries = datagen.render_fasta(st, order=order)
            if oi == 1:
                random.Random(oseed).shuffle(entries)  # interleave targets and decoys arbitrarily
            path = Path(workdir) / f"s{si}_{oi}.fasta"
            if oi == 2 and len(entries) > 1:
                # the same entries spread over two files (read_fasta accepts several)
                cut = 1 + (oseed + si) % (len(entries) - 1)
                path2 = Path(workdir) / f"s{si}_{oi}b.fasta"
                datagen.write_fasta(path, entries[:cut])
                datagen.write_fasta(path2, entries[cut:])
                path = (path, path2)
            else:
                datagen.write_fasta(path, entries)
            try:
                prot = mokapot.read_fasta(path, **digest_kw)
                per.append(canonical(prot))
            except Exception as exc:  # noqa: BLE001
                per.append({"error": f"{type(exc).__name__}: {exc}"[:200]})
        out.append(per)
    return out


def child_main():
    import logging

    logging.disable(logging.CRITICAL)
    payload = json.loads(sys.stdin.read())
    structs = build_structs(payload)
    res = parse_all(structs, payload["orders"], payload["digest"], payload["_workdir"])
    sys.stdout.write("\nVSIM-C16-RESULT " + json.dumps({"hashseed": os.environ.get("PYTHONHASHSEED"),
                                                        "digests": [[digest(c) for c in per] for per in res]}) + "\n")


def check_structure(st, canon, digest_kw, prefix="decoy_"):
    """Grouping invariants of one parse against the incidence from mokapot.digest. Returns None or (clause, msg)."""
    import mokapot

    inc = {}
    for n, toks in st["proteins"].items():
        seq = datagen.protein_seq(st, n)
        dseq = datagen.protein_seq(st, n, decoy=True)
        for name, s in ((n, seq), (prefix + n, dseq)):
            peps = mokapot.digest(s, **digest_kw) if s else set()
            if peps:
                inc[name] = set(peps)
    if "error" in canon:
        if not any(not p.startswith(prefix) for p in inc):
            return None  # no target protein yields a peptide: rejecting the file is legitimate
        return ("parse_failed", canon["error"])
    groups = [tuple(g) for g in canon["groups"]]
    members = [m for g in groups for m in g]
    # (1) every digesting protein is in a group; no unknown members
    for p in inc:
        if p not in members:
            return ("protein_without_group", f"protein {p} yields peptides but belongs to no group")
    for m in members:
        if m not in inc:
            return ("unknown_member", f"group member {m} yields no peptide / does not exist")
    pepset = {}
    for g in groups:
        u = set().union(*[inc[m] for m in g])
        pepset[g] = u
        # (2) the group's peptide set is that of one member and contains all members'
        if not any(inc[m] == u for m in g):
            return ("group_without_representative", f"group {g}: no member has the group's full peptide set")
    # (3) maximality: no group's peptide set is contained in another group's
    for a in groups:
        for b in groups:
            if a != b and pepset[a] <= pepset[b]:
                return ("group_not_maximal", f"peptide set of group {a} is contained in that of group {b}")
    # (4) maps agree with the incidence
    pm = dict((pep, tuple(g)) for pep, g in canon["peptide_map"])
    shared = dict((pep, [tuple(g) for g in gs]) for pep, gs in canon["shared_groups"])
    all_peps = set().union(*inc.values()) if inc else set()
    for pep in all_peps:
        owners = [g for g in groups if pep in pepset[g]]
        if len(owners) == 1:
            if pep not in pm or pm[pep] != owners[0]:
                return ("unique_peptide_map", f"peptide {pep} is contained in exactly one group {owners[0]} but peptide_map "
                        f"has {pm.get(pep)} (shared: {pep in shared})")
        elif len(owners) >= 2:
            if pep in pm or pep not in shared:
                return ("shared_peptide_map", f"peptide {pep} is contained in {len(owners)} groups but is recorded as "
                        f"{'unique' if pep in pm else 'neither'}")
        else:
            return ("peptide_lost", f"peptide {pep} is contained in no group")
    for pep in list(pm) + list(shared):
        if pep not in all_peps:
            return ("unknown_peptide", f"peptide {pep} recorded but no protein yields it")
    # (5) decoy pairing
    pmap = dict(canon["protein_map"])
    for p in inc:
        if not p.startswith(prefix):
            if pmap.get(p) != prefix + p:
                return ("decoy_pairing", f"target {p} is paired with {pmap.get(p)!r}, expected {prefix + p!r}")
    return None


def _features(st):
    sets = [frozenset(v) for v in st["proteins"].values()]
    ne = [s for s in sets if s]
    f = {
        "empty_protein": int(any(not s for s in sets)),
        "equal_sets": int(len(set(ne)) < len(ne)),
        "chain_of_subsets": int(any(a < b and any(b < c for c in ne) for a in ne for b in ne)),
        "contained_in_two": int(any(sum(1 for b in set(ne) if a < b) >= 2 for a in ne)),
        "shared_peptides": int(any(sum(1 for s in ne if t in s) >= 2 for t in st["tokens"])),
        "target_decoy_shared_peptide": int(any(t[:-1] == t[:-1][::-1] for t in st["tokens"] if any(t in s for s in ne))),
        "subset": int(any(a < b for a in ne for b in ne)),
    }
    return f


def run_scenario(scn, workdir):
    structs = build_structs(scn)
    dk = scn["digest"]
    local = parse_all(structs, scn["orders"], dk, Path(workdir) / "local")
    probes = {p: 0 for p in PROBES}
    nontrivial = 0
    for st in structs:
        f = _features(st)
        for k in ("chain_of_subsets", "contained_in_two", "equal_sets", "empty_protein", "shared_peptides",
                  "target_decoy_shared_peptide"):
            probes[k] += f[k]
        nontrivial += int(f["subset"] or f["equal_sets"] or f["shared_peptides"])
    probes["missed_cleavages>0"] = int(dk["missed_cleavages"] > 0)
    probes["small_exhaustive_block"] = int(scn.get("exhaustive_block") is not None)
    out = {
        "status": "ok",
        "digest": digest([scn["struct_seeds"], scn.get("exhaustive_block"), dk, scn.get("only")]),
        "nontrivial": nontrivial > 0,
        "probes": probes,
        "sample": {"digest": dk, "orders": scn["orders"], "hash_seeds": scn["hash_seeds"],
                   "first_structure": structs[0]["proteins"]},
    }

    def viol(clause, msg, **sig):
        out.update(status="violation", clause=clause, message=msg, signature=sig)
        return out

    for si, (st, per) in enumerate(zip(structs, local)):
        for oi, canon in enumerate(per):
            bad = check_structure(st, canon, dk)
            if bad:
                return viol(bad[0], f"structure #{si} {st['proteins']} (entry order {oi}): {bad[1]}", structure=si if scn.get("only") is None else scn["only"])
            if "groups" in canon and any(len(g) >= 3 for g in canon["groups"]):
                probes["groups_with_>=3_members"] += 1
        d = [digest(c) for c in per]
        if len(set(d)) != 1:
            return viol("entry_order", f"structure #{si} {st['proteins']}: grouping differs between FASTA entry orders",
                        structure=si if scn.get("only") is None else scn["only"])
    probes["orders_compared"] = len(scn["orders"]) * len(structs)
    for h in scn["hash_seeds"]:
        env = dict(os.environ)
        env["PYTHONHASHSEED"] = str(h % 4294967295)
        payload = dict(scn)
        payload["_workdir"] = str(Path(workdir) / f"h{h}")
        cp = subprocess.run([sys.executable, "-c", "from vsim.checks.c16 import child_main; child_main()"],
                            input=json.dumps(payload), capture_output=True, text=True, env=env, timeout=240)
        line = [ln for ln in cp.stdout.splitlines() if ln.startswith("VSIM-C16-RESULT ")]
        if cp.returncode != 0 or not line:
            raise RuntimeError(f"fresh interpreter failed rc={cp.returncode}: {cp.stderr[-1500:]}")
        fresh = json.loads(line[-1][len("VSIM-C16-RESULT "):])
        if fresh["hashseed"] != env["PYTHONHASHSEED"]:
            raise RuntimeError("hash seed not applied")
        for si, (per, fper) in enumerate(zip(local, fresh["digests"])):
            mine = digest(per[0])
            for oi, fd in enumerate(fper):
                if fd != mine:
                    return viol("hash_seed", f"structure #{si} {structs[si]['proteins']}: grouping under PYTHONHASHSEED="
                                f"{env['PYTHONHASHSEED']} (entry order {oi}) differs from PYTHONHASHSEED=0",
                                structure=si if scn.get("only") is None else scn["only"])
        probes["hash_seeds_compared"] += len(structs)
    return out


def shrink_candidates(scn):
    if scn.get("only") is None:
        n = BATCH
        for i in range(n):
            c = clone(scn); c["only"] = i; yield c
        return
    if len(scn["hash_seeds"]) > 1:
        for h in scn["hash_seeds"]:
            c = clone(scn); c["hash_seeds"] = [h]; yield c
    if scn["digest"]["missed_cleavages"] > 0:
        c = clone(scn); c["digest"]["missed_cleavages"] = 0; yield c
