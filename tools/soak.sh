#!/bin/sh
# Long exploration of every check (thorough tier) under a non-default VERIF_SEED; evidence/replays go to scratch.
# usage: tools/soak.sh <VERIF_SEED> <budget seconds per check> [checks...]
cd "$(dirname "$0")/.."
SEED=${1:-1000}; BUDGET=${2:-900}; shift 2 2>/dev/null
CHECKS=${*:-"C02 C03 C05 C07 C08 C09 C10 C11 C13 C14 C16"}
OUT=$(mktemp -d /dev/shm/vsim-soak-XXXXXX)
export VERIF_EVIDENCE_DIR=$OUT/evidence VERIF_REPLAY_DIR=$OUT/replays
bad=0
for c in $CHECKS; do
  VERIF_SEED=$SEED timeout $((BUDGET + 1500)) ./check $c --tier thorough --budget $BUDGET > $OUT/$c.log 2>&1
  rc=$?
  echo "soak seed=$SEED $c rc=$rc $(grep -E "^\[$c\] evaluations" $OUT/$c.log | tail -1)"
  if [ $rc -ne 0 ]; then
    bad=$((bad+1))
    grep -E "^clause|^message|^signature|VIOLATION|HARNESS" $OUT/$c.log | cut -c1-600
    mkdir -p sweep_failures && cp $OUT/$c.log sweep_failures/soak.$c.$SEED.log && cp -r $OUT/replays sweep_failures/ 2>/dev/null
  fi
done
echo "soak done: non-zero exits=$bad"
rm -rf $OUT
[ $bad -eq 0 ]
