"""Hypothesis state machine over vsim.worlds.tabular.TabWorld, shared by C13 (readers/writers)
and C14 (mergers).  Runs outside pytest; one scenario = one Hypothesis seed."""

from __future__ import annotations

import os
import shutil
import tempfile
from collections import Counter

from hypothesis import HealthCheck, Phase, seed, settings
from hypothesis import strategies as st
from hypothesis.stateful import RuleBasedStateMachine, precondition, rule, run_state_machine_as_test

from ..driver import clone
from ..util import digest, exc_site, short_msg
from ..worlds.tabular import TYPES, OracleViolation, TabWorld, run_ops

NAMES = [f"t{i}" for i in range(6)]
GROUPS = [f"g{i}" for i in range(4)]

ints = st.integers(min_value=-10**6, max_value=10**6)
floats = st.builds(lambda a, b: float(f"{a}.{b:06d}") if a >= 0 else -float(f"{-a}.{b:06d}"),
                   st.integers(-9999, 9999), st.integers(0, 999999))
# strings: mostly plain identifiers; one in five carries characters that delimited text has to quote (double quote, the
# separator, a line feed, comma, ...).  A lone carriage return is left out: pandas' writer does not quote it.
strs = st.one_of(
    st.text(alphabet="abcxyz019_", min_size=0, max_size=6), st.text(alphabet="abcxyz019_", min_size=0, max_size=6),
    st.text(alphabet="abcxyz019_", min_size=0, max_size=6), st.text(alphabet="abcxyz019_", min_size=0, max_size=6),
    st.text(alphabet="ab01_\"'\t\n ,#|\\;:", min_size=1, max_size=6),
).map(lambda s: "s" + s)
bools = st.booleans()
cell = st.tuples(ints, floats, strs, bools)
CELL_IDX = {"int": 0, "float": 1, "str": 2, "bool": 3}


def project(rows, types):
    return [[r[j % len(r)][CELL_IDX[t]] for j, t in enumerate(types)] for r in rows]


PROBES_BY = {
    "C13": ["ops", "reads", "chunked_reads", "multi_chunk_reads", "appends", "finalized", "buffer_flushes", "caller_reused_its_object", "dictionary_typed_parquet", "parquet_from_sliced_frame", "interleaved_iterators", "text_tables_copied"],
    "C14": ["ops", "merges", "tie_merges", "sortedness_faults", "abandoned_merges", "merges_with_projection", "projection_moves_score_column", "tiny_sortedness_faults"],
}

STATE = {"failed": None, "examples": 0, "digests": set(), "stats": Counter(), "kinds": set(), "max_ops": 0, "process_ops": []}


def make_machine(which, base_dir):
    class Machine(RuleBasedStateMachine):
        def __init__(self):
            super().__init__()
            self.wd = tempfile.mkdtemp(dir=base_dir)
            self.world = TabWorld(self.wd)
            self.ops = []
            STATE["examples"] += 1
            STATE["process_ops"].append(["new_world", {}])

        def _do(self, name, **args):
            op = [name, args]
            self.ops.append(op)
            STATE["process_ops"].append(op)
            try:
                self.world.apply(op)
            except BaseException as exc:  # noqa: BLE001
                if STATE["failed"] is None or not STATE["failed"].get("first_kept"):
                    # the first failure of the process is kept together with everything the process did before it
                    STATE["failed"] = {"ops": [list(o) for o in self.ops], "exc": exc, "first_kept": True, "first_exc": exc,
                                       "process_ops": [list(o) for o in STATE["process_ops"]]}
                else:
                    STATE["failed"].update(ops=[list(o) for o in self.ops], exc=exc)
                raise

        def teardown(self):
            STATE["digests"].add(digest(self.ops))
            STATE["stats"].update(self.world.stats)
            STATE["kinds"].update(self.world.kinds)
            STATE["max_ops"] = max(STATE["max_ops"], len(self.ops))
            shutil.rmtree(self.wd, ignore_errors=True)

        # ------------------------------------------------------------ C13 rules
        if which == "C13":

            @rule(table=st.sampled_from(NAMES), fmt=st.sampled_from(["csv", "parquet"]),
                  types=st.lists(st.sampled_from(TYPES), min_size=1, max_size=4),
                  buffer_size=st.sampled_from([0, 0, 2, 3, 4, 5, 7, 9]), kind=st.sampled_from(["DataFrame", "Dicts", "Records"]))
            def open_writer(self, table, fmt, types, buffer_size, kind):
                cols = [f"c{i}{t[0]}" for i, t in enumerate(types)]
                self._do("open_writer", table=table, fmt=fmt, columns=cols, types=types, buffer_size=buffer_size, kind=kind)

            @precondition(lambda self: any(t["writer"] is not None for t in self.world.tables.values()))
            @rule(data=st.data(), rows=st.lists(st.lists(cell, min_size=4, max_size=4), min_size=1, max_size=7),
                  reuse=st.sampled_from([False, False, True]))
            def append(self, data, rows, reuse):
                open_ = sorted(k for k, t in self.world.tables.items() if t["writer"] is not None)
                table = data.draw(st.sampled_from(open_))
                self._do("append", table=table, rows=project(rows, self.world.tables[table]["types"]), reuse=reuse)

            @precondition(lambda self: any(t["writer"] is not None for t in self.world.tables.values()))
            @rule(data=st.data())
            def finalize(self, data):
                open_ = sorted(k for k, t in self.world.tables.items() if t["writer"] is not None)
                self._do("finalize", table=data.draw(st.sampled_from(open_)))

            @rule(table=st.sampled_from(NAMES), fmt=st.sampled_from(["csv", "parquet"]),
                  types=st.lists(st.sampled_from(TYPES), min_size=1, max_size=4),
                  rows=st.lists(st.lists(cell, min_size=4, max_size=4), min_size=0, max_size=12))
            def write_whole(self, table, fmt, types, rows):
                cols = [f"c{i}{t[0]}" for i, t in enumerate(types)]
                self._do("write_whole", table=table, fmt=fmt, columns=cols, types=types, rows=project(rows, types))

            @rule(table=st.sampled_from(NAMES), dest=st.sampled_from(NAMES),
                  rows=st.lists(st.tuples(floats, ints), min_size=3, max_size=12),
                  buffer_size=st.sampled_from([0, 0, 2, 3, 7]), kind=st.sampled_from(["DataFrame", "Dicts", "Records"]),
                  chunk_size=st.sampled_from([1, 2, 3, 5, 1000]))
            def copy_text_table(self, table, dest, rows, buffer_size, kind, chunk_size):
                self._do("copy_text_table", table=table, dest=dest, rows=[list(r) for r in rows], buffer_size=buffer_size,
                         kind=kind, chunk_size=chunk_size)

            @rule(table=st.sampled_from(NAMES), types=st.lists(st.sampled_from(TYPES), min_size=1, max_size=4),
                  rows=st.lists(st.lists(cell, min_size=4, max_size=4), min_size=0, max_size=25),
                  row_group_size=st.integers(1, 12), dict_strings=st.sampled_from([False, False, True]),
                  index_start=st.sampled_from([0, 0, 0, 3, 40]))
            def parquet_direct(self, table, types, rows, row_group_size, dict_strings, index_start):
                cols = [f"c{i}{t[0]}" for i, t in enumerate(types)]
                self._do("parquet_direct", table=table, columns=cols, types=types, rows=project(rows, types),
                         row_group_size=row_group_size, dict_strings=dict_strings, index_start=index_start)

            @precondition(lambda self: any(t["final"] for t in self.world.tables.values()))
            @rule(data=st.data(), via=st.sampled_from(["direct", "direct", "frame", "mapped_frame", "mapped", "joined", "computed"]),
                  chunk_mode=st.sampled_from(["one", "small", "n-1", "n", "n+1", "any"]), chunk_any=st.integers(1, 30),
                  col_pick=st.one_of(st.none(), st.lists(st.integers(0, 7), min_size=1, max_size=5)),
                  rename=st.integers(0, 15), twin_chunk=st.sampled_from([None, None, None, 1, 2, 3, 5]))
            def read(self, data, via, chunk_mode, chunk_any, col_pick, rename, twin_chunk):
                fin = sorted(k for k, t in self.world.tables.items() if t["final"])
                table = data.draw(st.sampled_from(fin))
                n = len(self.world.tables[table]["rows"])
                cs = {"one": 1, "small": 2, "n-1": max(1, n - 1), "n": max(1, n), "n+1": n + 1, "any": chunk_any}[chunk_mode]
                other = None
                if via == "joined":
                    cands = [k for k in fin if k != table and len(self.world.tables[k]["rows"]) == n]
                    if not cands:
                        via = "direct"
                    else:
                        other = data.draw(st.sampled_from(cands))
                self._do("read", table=table, via=via, chunk_size=cs, col_pick=col_pick, other=other, rename=rename,
                         twin_chunk=twin_chunk)

        # ------------------------------------------------------------ C14 rules
        if which == "C14":

            @rule(group=st.sampled_from(GROUPS), fmt=st.sampled_from(["csv", "parquet"]), descending=st.booleans(),
                  n_runs=st.integers(1, 8), tie_pool=st.sampled_from([0, 0, 2, 3, 5]),
                  rows=st.lists(st.tuples(st.one_of(floats, st.sampled_from([0.0, -0.0, 1.0, -1.0, 0.5, -0.25]),
                                                    st.integers(-4, 4).map(float)), st.integers(0, 6)),
                                min_size=1, max_size=40),
                  extra_types=st.lists(st.sampled_from(TYPES), min_size=0, max_size=2),
                  row_group=st.sampled_from([None, None, 1, 2, 3, 5]), int_text=st.sampled_from([False, False, True]))
            def make_runs(self, group, fmt, descending, n_runs, tie_pool, rows, extra_types, row_group, int_text):
                runs = [[] for _ in range(n_runs)]
                for rid, (sc, where) in enumerate(rows):
                    if tie_pool:
                        # few distinct values straddling zero -> exact ties within and across runs
                        sc = float(int(sc) % tie_pool - tie_pool // 2)
                    runs[(where + rid) % n_runs if where < 5 else 0].append([sc, rid])
                runs = [r for r in runs if r]
                if int_text and fmt == "csv" and not tie_pool:
                    # every run starts with two whole numbers (so a text reader sniffs an integer column) and goes on
                    # with fractional scores
                    big = 10 + int(max(abs(sc) for sc, _ in rows))
                    for k, run in enumerate(runs):
                        for j in range(2):
                            v = float(big + 2 * k + j) if descending else float(-big - 2 * k - j)
                            run.append([v, 1000 + 2 * k + j])
                self._do("make_runs", group=group, fmt=fmt, runs=runs, descending=descending, extra_types=extra_types,
                         row_group=row_group if fmt == "parquet" else None, int_text=bool(int_text and fmt == "csv"))

            def _groups(self):
                return sorted({k.rsplit("_", 1)[0] for k, t in self.world.tables.items() if t["kind"] == "run"})

            @precondition(lambda self: any(t["kind"] == "run" for t in self.world.tables.values()))
            @rule(data=st.data(), merge_chunk=st.sampled_from([1, 2, 3, 5, 8, 13, 1000]),
                  take=st.sampled_from([None, None, None, 0, 1, 2, 5]))
            def merge_sort(self, data, merge_chunk, take):
                self._do("merge_sort", group=data.draw(st.sampled_from(self._groups())), merge_chunk=merge_chunk, take=take)

            @precondition(lambda self: any(t["kind"] == "run" for t in self.world.tables.values()))
            @rule(data=st.data(), mode=st.sampled_from(["read", "chunked", "rows", "merge_readers"]),
                  row_type=st.sampled_from(["DataFrame", "Dicts", "Records"]),
                  reader_chunk=st.sampled_from([1, 2, 3, 5, 8, 1000]), out_chunk=st.integers(1, 12),
                  take=st.sampled_from([None, None, None, 1, 3]),
                  col_pick=st.one_of(st.none(), st.none(), st.lists(st.integers(0, 5), min_size=1, max_size=4)))
            def merge_readers(self, data, mode, row_type, reader_chunk, out_chunk, take, col_pick):
                self._do("merge_readers", group=data.draw(st.sampled_from(self._groups())), mode=mode, row_type=row_type,
                         reader_chunk=reader_chunk, out_chunk=out_chunk, take=take if mode in ("rows", "chunked") else None,
                         col_pick=col_pick if mode != "merge_readers" else None)

            @precondition(lambda self: any(t["kind"] == "run" for t in self.world.tables.values()))
            @rule(data=st.data(), run_index=st.integers(0, 7), i=st.integers(0, 39), j=st.integers(0, 39),
                  reader_chunk=st.sampled_from([1, 2, 5, 1000]), tiny=st.sampled_from([False, False, True]))
            def unsorted_fault(self, data, run_index, i, j, reader_chunk, tiny):
                self._do("unsorted_fault", group=data.draw(st.sampled_from(self._groups())), run_index=run_index, i=i, j=j,
                         reader_chunk=reader_chunk, tiny=tiny)

    Machine.__name__ = f"Tab{which}Machine"
    return Machine


def run_scenario(scn, workdir, which):
    base = os.path.join(workdir, "tab")
    os.makedirs(base, exist_ok=True)
    out = {"status": "ok", "nontrivial": True, "probes": {}, "sample": None}

    def violation_from(exc, ops):
        if isinstance(exc, OracleViolation):
            out.update(status="violation", clause=exc.clause, message=exc.message, signature=exc.signature)
        else:
            out.update(status="violation", clause="operation_failed",
                       message=f"operation {ops[-1][0]} failed on valid use: {short_msg(exc)} at {exc_site(exc)}",
                       signature={"op": ops[-1][0], "etype": type(exc).__name__, "site": exc_site(exc)})
        out["replay_scenario"] = {"property": which, "seed": scn["seed"], "replay_ops": ops}
        out["digest"] = digest(ops)
        out["sample"] = {"ops": ops}
        return out

    if scn.get("replay_ops") is not None:
        ops = scn["replay_ops"]
        out["digest"] = digest(ops)
        out["evaluations"] = 1
        out["sample"] = {"ops": ops[:20]}
        try:
            run_ops(ops, os.path.join(base, "replay"))
        except BaseException as exc:  # noqa: BLE001
            return violation_from(exc, ops)
        return out

    STATE.update(failed=None, examples=0, digests=set(), stats=Counter(), kinds=set(), max_ops=0, process_ops=[])
    Machine = make_machine(which, base)
    cfg = settings(max_examples=scn["max_examples"], stateful_step_count=scn["steps"], database=None, deadline=None,
                   report_multiple_bugs=False, suppress_health_check=list(HealthCheck),
                   phases=[Phase.generate, Phase.shrink], print_blob=False)
    sample_ops = None
    try:
        run_state_machine_as_test(seed(scn["hyp_seed"])(Machine), settings=cfg)
    except BaseException as exc:  # noqa: BLE001
        failed = STATE["failed"]
        if failed is None:
            raise
        ops = failed["ops"]
        # confirm outside Hypothesis
        try:
            run_ops(ops, os.path.join(base, "confirm"))
        except BaseException as exc2:  # noqa: BLE001
            return violation_from(exc2, ops)
        # The failing history alone is fine: what failed depends on what this interpreter did before (state kept in
        # the code under test between independent histories).  The replay is then the whole process history up to the
        # first failure; the driver confirms it in a fresh process and shrinks it (whole histories first).
        first_exc = failed["first_exc"]
        hist = failed["process_ops"]
        v = violation_from(first_exc, hist)
        v["message"] += f"  [only after {sum(1 for o in hist if o[0] == 'new_world') - 1} earlier, independent histories in the same process]"
        return v
    stats = STATE["stats"]
    out.update(
        evaluations=STATE["examples"],
        distinct_digests=sorted(STATE["digests"]),
        digest=digest([which, scn["hyp_seed"]]),
        probes={k: int(v) for k, v in stats.items() if k in PROBES_BY[which]},
        kinds=sorted(map(str, STATE["kinds"])),
        sample=sample_ops or {"hyp_seed": scn["hyp_seed"], "examples": STATE["examples"], "longest_history": STATE["max_ops"],
                              "configurations_seen": sorted(map(str, STATE["kinds"]))[:12]},
    )
    return out


def shrink_candidates(scn):
    ops = scn.get("replay_ops")
    if not ops:
        return
    marks = [i for i, o in enumerate(ops) if o[0] == "new_world"]
    if len(marks) > 1:
        # a process history: drop whole earlier histories first (keep the last k, then drop single ones)
        k = 1
        while k < len(marks):
            c = clone(scn); c["replay_ops"] = ops[marks[-k]:]; yield c
            k *= 2
        for a, b in zip(marks, marks[1:]):
            c = clone(scn); c["replay_ops"] = ops[:a] + ops[b:]; yield c
    for i in range(len(ops) - 1, -1, -1):
        c = clone(scn)
        del c["replay_ops"][i]
        yield c
    # shrink row payloads
    for i, (name, args) in enumerate(ops):
        for key in ("rows",):
            if key in args and len(args[key]) > 1:
                c = clone(scn)
                c["replay_ops"][i][1][key] = args[key][: len(args[key]) // 2]
                yield c
        if name == "make_runs" and len(args["runs"]) > 1:
            c = clone(scn)
            c["replay_ops"][i][1]["runs"] = args["runs"][:-1]
            yield c
