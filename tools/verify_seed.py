#!/usr/bin/env python3
"""Confirm a sub-agent's seeded change in a fresh scratch worktree of /repo HEAD:
  patch applies; the 73 baseline tests pass with it; demo exits 1 with it and 0 without it.
usage: tools/verify_seed.py <dir with patch.diff, demo.py, meta.json> [...]"""
import json, os, subprocess, sys, shutil, xml.etree.ElementTree as ET

BASE = json.load(open("/root/.vp/BASELINE.json"))["stable_pass"]

def sh(cmd, **kw):
    return subprocess.run(cmd, shell=True, capture_output=True, text=True, **kw)

def main():
    results = {}
    for d in sys.argv[1:]:
        d = os.path.abspath(d)
        name = os.path.basename(d.rstrip("/"))
        wt = f"/tmp/wt/verify-{name}"
        sh(f"git -C /repo worktree remove --force {wt}")
        shutil.rmtree(wt, ignore_errors=True)
        r = sh(f"git -C /repo worktree add -q --detach {wt} HEAD")
        res = {"applies": False}
        try:
            a = sh(f"git -C {wt} apply {d}/patch.diff")
            res["applies"] = a.returncode == 0
            if not res["applies"]:
                res["apply_err"] = a.stderr[-300:]
                continue
            env = dict(os.environ, PYTHONPATH=wt)
            junit = f"/tmp/wt/verify-{name}.xml"
            sh(f"cd {wt} && /venv/bin/python -m pytest -q -p no:cacheprovider --timeout=900 --continue-on-collection-errors --junitxml={junit}", env=env)
            ok = set()
            for tc in ET.parse(junit).iter("testcase"):
                if not any(c.tag in ("failure", "error", "skipped") for c in tc):
                    ok.add(f"{tc.get('classname')}::{tc.get('name')}")
            missing = [t for t in BASE if t not in ok]
            res["baseline_pass"] = len(BASE) - len(missing)
            res["baseline_missing"] = missing
            w = sh(f"cd /tmp && timeout 600 /venv/bin/python {d}/demo.py", env=env)
            res["demo_with_change_rc"] = w.returncode
            res["demo_with_change_tail"] = (w.stdout + w.stderr)[-300:]
            sh(f"git -C {wt} apply -R {d}/patch.diff")
            wo = sh(f"cd /tmp && timeout 600 /venv/bin/python {d}/demo.py", env=env)
            res["demo_without_change_rc"] = wo.returncode
            res["demo_without_tail"] = (wo.stdout + wo.stderr)[-200:]
            res["confirmed"] = bool(res["baseline_pass"] == len(BASE) and w.returncode == 1 and wo.returncode == 0)
        finally:
            results[name] = res
            sh(f"git -C /repo worktree remove --force {wt}")
            shutil.rmtree(wt, ignore_errors=True)
            print(name, json.dumps({k: v for k, v in res.items() if "tail" not in k}), flush=True)
    json.dump(results, open("/tmp/wt/verify_results.json", "w"), indent=1)

main()
