from __future__ import annotations

import hashlib
import json
import os


def derive_seed(*parts):
    h = hashlib.blake2b(digest_size=8)
    for p in parts:
        h.update(repr(p).encode())
        h.update(b"\0")
    return int.from_bytes(h.digest(), "big") >> 1  # 63 bits, JSON-safe


def digest(obj):
    return hashlib.blake2b(
        json.dumps(obj, sort_keys=True, default=repr).encode(), digest_size=10
    ).hexdigest()


def digest_bytes(*chunks):
    h = hashlib.blake2b(digest_size=12)
    for c in chunks:
        if isinstance(c, str):
            c = c.encode()
        h.update(c)
        h.update(b"\xff")
    return h.hexdigest()


def code_fingerprint():
    """Hash of the mokapot sources the checks run against."""
    import mokapot

    root = os.path.dirname(os.path.abspath(mokapot.__file__))
    h = hashlib.blake2b(digest_size=10)
    for dirpath, dirnames, filenames in os.walk(root):
        dirnames.sort()
        for f in sorted(filenames):
            if f.endswith(".py"):
                p = os.path.join(dirpath, f)
                h.update(os.path.relpath(p, root).encode())
                with open(p, "rb") as fh:
                    h.update(fh.read())
    return h.hexdigest()


def mokapot_root():
    import mokapot

    return os.path.dirname(os.path.dirname(os.path.abspath(mokapot.__file__)))


def exc_site(exc):
    """(function name, file basename) of the innermost mokapot frame of a traceback."""
    import traceback

    site = None
    for fs in traceback.extract_tb(exc.__traceback__):
        fn = fs.filename.replace("\\", "/")
        if "/mokapot/" in fn and "/vsim/" not in fn:
            site = f"{fn.split('/mokapot/')[-1]}:{fs.name}"
    return site or "?"


def short_msg(exc, n=120):
    import re

    s = f"{type(exc).__name__}: {exc}"
    s = re.sub(r"/[^\s'\"]+", "<path>", s)
    return s[:n]
