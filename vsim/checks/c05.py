"""C05 - results do not depend on chunk sizes, worker count, thread timing or
file format.  Differential: one scenario is executed twice,

  reference : text input, every chunk size larger than the file, max_workers=1
  perturbed : seeded values for all six chunk sizes, 2-16 workers under a
              seeded schedule, seeded directory-listing order, text or Parquet
              with a seeded row-group size

and the two executions must agree (error parity, parsed datasets, scores,
coefficients, every result file)."""

from __future__ import annotations

import random

import numpy as np

from .. import datagen, estimators, world
from ..driver import clone, seeds_for
from ..util import digest, exc_is_domain
from ..worlds import pipeline as P

PROPERTY = "C05"
SCHED_PATH = ("pert", "sched")
LEVEL = "exploration"
QUICK_N = 256
SCENARIO_TIMEOUT = 240
PROBES = ["pred_chunk_lacks_fold", "one_row_last_chunk", "spectrum_split_across_conf_chunks",
          "spectrum_within_one_conf_chunk", "subsampled", "rowgroup_inside_chunk", "spill_files>=2",
          "switch_in_get_rows", "switch_in_save_chunks", "parquet", "workers>=8", "dedup_off", "rollup_off",
          "multi_file", "order_sensitive_learner", "sklearn_learner", "merge_chunk_small", "protein_level",
          "pep_files_compared_strictly", "pep_files_checked_for_shape_only", "feature_with_missing_values", "ensemble_mode", "proba_only_learner",
          "spectrum_key_with_missing_values", "parquet_dictionary_typed_strings", "parquet_written_from_sliced_frame", "text_feature_starts_with_whole_numbers", "train_set_blocks>=2",
          "parquet_missing_values_stored_as_nan", "identifier_slice_holds_only_the_feature_with_missing_values",
          "whole_number_spectrum_key_in_one_row_last_chunk"]
RULE = (
    "Each scenario = one seeded tie-free data set + configuration (learner, folds, seeds, rollup/decoy/dedup "
    "switches) executed as reference (text, knobs > file, 1 worker, no threads) and as perturbed execution "
    "(six seeded chunk-size knobs biased to 1,2,n-1,n,n+1 and one-row remainders; 2-16 workers under a seeded "
    "random-switch or PCT schedule with line-level pre-emption; permuted directory listings; text or Parquet with "
    "seeded row groups). Oracle: differential equality. distinct = distinct (data, config, perturbation incl. "
    "schedule digest); non-trivial = the perturbed execution had >= 1 context switch between tasks or >= 2 chunks "
    "in some stage or a different file format."
)
ASSUMPTIONS = [
    "continuous tie-free features; exact score ties (the calibration anchors 0 and -1 occur once per fold) may appear in any "
    "order in a result file and are ordered by identifier before comparison; a scenario whose reference scores tie "
    "between rows that compete (same spectrum or rollup entity) is discarded as uninformative",
    "scores compared at rtol 1e-9, q-values at rtol 1e-6 (float32 FDR); PEPs at rtol 1e-6 only when every score of the "
    "file is bit-identical in both executions, otherwise the PEP column must be within [0,1] and non-decreasing down the "
    "file (measured: triqler's spline fit moved a PEP from 0.0795 to 0.0480 when 11 of 48 scores differed by 1 ulp, which "
    "pandas' non-round-trip text float parser causes between the text and the Parquet path); strings and row order "
    "(outside exact-tie groups) exactly",
    "short Parquet batches are not injected: the installed pyarrow's iter_batches spans row groups",
    "a reference execution whose scores are not finite (degenerate calibration of a tiny fold, outside C11's quantifier) "
    "makes the scenario uninformative",
    "a reference execution that raises 'No PSMs found'/'calibration' errors makes the scenario uninformative only "
    "if the perturbed execution raises the same error type (error parity is still checked)",
]
REAL = ["mokapot.read_pin", "mokapot.brew", "mokapot.assign_confidence", "mokapot.tabular_data", "mokapot.utils.merge_sort",
        "pandas", "pyarrow", "triqler (qvality PEPs)", "scikit-learn (svc / Percolator learners)", "file system (/dev/shm)"]
STUBS = ["joblib.Parallel -> vsim.sched.SimParallel", "estimator -> RecordingLDA / order-sensitive OrderLDA (most runs)",
         "Path.glob -> seeded permutation of the listing"]


def make_scenario(seed):
    rng = random.Random(seed)
    dp = P.gen_data_params(rng, small=True, level_cols_p=0.25)
    n_rows_guess = int(dp["n_files"] * dp["n_spectra"] * (1 + dp["max_per_spectrum"]) / 2)
    per_file = max(1, n_rows_guess // dp["n_files"])
    folds = rng.choice([2, 3, 3, 4, 5])
    smallest = per_file * min(dp.get("size_factors") or [1.0])
    while folds > 2 and smallest / folds < 45:
        folds -= 1
    learner = rng.choices(["olda", "rlda", "svc", "perc", "plda"], weights=[62, 10, 10, 8, 10])[0]
    r = rng.random()
    cap = None if r < 0.75 else rng.randint(40, max(41, n_rows_guess // 2))
    cfg = {
        "learner": learner,
        "folds": folds,
        "test_fdr": rng.choice([0.1037, 0.2113, 0.2113, 0.3071]),
        "train_fdr": rng.choice([0.1037, 0.2113]),
        "max_iter": rng.choice([1, 2, 3]) if learner in ("olda", "rlda", "plda") else rng.choice([1, 2]),
        "seed": rng.randint(0, 10**6),
        "subset_max_train": cap,
        "max_workers": 1,
        "confidence": True,
        "override": rng.random() < 0.85,
        "ensemble": rng.random() < 0.12,
        "conf": {
            "decoys": rng.random() < 0.7,
            "dedup": rng.random() < 0.75,
            "rollup": rng.random() < 0.8,
        },
    }
    workers = rng.choice([2, 2, 3, 4, 4, 8, 16])
    kn = {}
    swarm = rng.random()
    sizes = [len(t["rows"]) for t in P.build_tables(dp)]  # exact row counts: boundary values must be exact
    for name in ("CONFIDENCE_CHUNK_SIZE", "CHUNK_SIZE_READ_ALL_DATA", "CHUNK_SIZE_ROWS_PREDICTION",
                 "CHUNK_SIZE_ROWS_FOR_DROP_COLUMNS", "MERGE_SORT_CHUNK_SIZE"):
        if rng.random() < (0.85 if swarm < 0.5 else 0.4):
            n_ = rng.choice(sizes)
            kn[name] = datagen.knob_value(rng, n_, extra=(max(1, n_ // folds - 1), n_ // folds + 1, folds, 2 * folds))
    if rng.random() < 0.5:
        kn["CHUNK_SIZE_COLUMNS_FOR_DROP_COLUMNS"] = rng.randint(1, 25)
    r_col = random.Random(f"colslice|{seed}")
    if dp.get("nan_feature") and r_col.random() < 0.5:
        # boundary relation planted: the column slice that carries the identifier columns holds, besides them, exactly the
        # feature with missing values (and the file is scanned in >= 2 row chunks, the missing values not all in the last)
        n_id = 1 + len(dp["spec_extra"]) + 1
        n_feat_cols = dp["n_features"] + 2
        good = [c for c in range(n_id + 1, 26) if (n_feat_cols + n_id) % c == n_id + 1]
        if good:
            kn["CHUNK_SIZE_COLUMNS_FOR_DROP_COLUMNS"] = r_col.choice(good)
            kn["CHUNK_SIZE_ROWS_FOR_DROP_COLUMNS"] = r_col.choice([1, 2, 7, max(1, min(sizes) // 3), max(1, min(sizes) - 1)])
    r_blk = random.Random(f"blk|{seed}")
    if r_blk.random() < 0.4:
        kn["TRAIN_SETS_BLOCK_SIZE"] = datagen.knob_value(r_blk, r_blk.choice(sizes), extra=(folds, 7, 50))
    fmt = rng.choice(["pin", "parquet"])
    pert = {
        "format": fmt,
        "row_group": rng.choice([None, 1, 3, 16, 50, sizes[0] - 1, sizes[0], max(1, kn.get("CONFIDENCE_CHUNK_SIZE", 7) - 1),
                                 kn.get("CHUNK_SIZE_ROWS_PREDICTION", 9) + 1]) if fmt == "parquet" else None,
        "knobs": kn,
        "max_workers": workers,
        "sched": world.gen_sched(rng, workers, est_steps=6000),
        "glob_seed": rng.getrandbits(16),
    }
    scn = {"property": PROPERTY, "seed": seed, "data": dp, "cfg": cfg, "pert": pert}
    if fmt == "parquet" and rng.random() < 0.35:
        pert["dict_strings"] = True  # low-cardinality string columns stored dictionary-typed (a pandas Categorical)
    if fmt == "parquet" and rng.random() < 0.3:
        pert["index_start"] = rng.choice([1, 40, 10**6])  # the file was written by pandas from a sliced frame
    if fmt == "parquet" and random.Random(f"nanv|{seed}").random() < 0.4:
        pert["nan_values"] = True  # missing values of float columns stored as NaN values, not as Parquet nulls
    if rng.random() < 0.3:
        # %g-style text: whole numbers without a decimal point, and a feature that starts with whole numbers
        cfg["g_format"] = True
        dp["whole_head"] = {"idx": rng.randrange(8), "rows": rng.choice([2, 3, 5])}
    r_wk = random.Random(f"wholekey|{seed}")
    if (cfg.get("g_format") and fmt == "pin" and dp["max_per_spectrum"] > 1 and not dp.get("nan_key")
            and any(c in dp["spec_extra"] for c in ("ExpMass", "ret_time")) and r_wk.random() < 0.7):
        # a spectrum whose numeric key columns hold whole numbers, one of its PSMs alone in the last confidence chunk
        dp["whole_key_tail"] = r_wk.randint(1, 1000)
        kn["CONFIDENCE_CHUNK_SIZE"] = max(1, sizes[0] - 1)
    if "ExpMass" in dp["spec_extra"] and dp["max_per_spectrum"] > 1 and rng.random() < 0.4:
        dp["nan_key"] = rng.choice([0.1, 0.25])  # some spectra lack the measured mass (a missing value in the spectrum key)
    if rng.random() < 0.25 and cfg["conf"]["rollup"]:
        scn["fasta_seed"] = rng.getrandbits(16)  # protein-level results as well
    return scn


def scenarios(tier, batch_seed):
    for _i, s in seeds_for(PROPERTY, batch_seed):
        yield make_scenario(s)


# ----------------------------------------------------------------- comparison
STATS = {"pep_strict": 0, "pep_loose": 0}


def _num(s):
    try:
        return float(s)
    except ValueError:
        return None


def canonical_tie_order(header, rows):
    """Rows with exactly equal scores may come in any order (the calibration anchors 0 and -1 occur once per
    fold, so such ties are unavoidable); order them by identifier before comparing."""
    if "score" not in header:
        return rows
    si = header.index("score")
    out, i = [], 0
    while i < len(rows):
        j = i + 1
        try:
            v = float(rows[i][si])
            while j < len(rows) and float(rows[j][si]) == v:
                j += 1
        except (ValueError, IndexError):
            pass
        out.extend(sorted(rows[i:j], key=lambda r: r[0]) if j - i > 1 else rows[i:j])
        i = j
    return out


def competing_ties(tables, scores, fasta_entries=None):
    """True if two rows with exactly equal reference scores share a spectrum, a rollup entity or - when the protein
    level is computed - a protein (then the winner is arbitrary and the scenario is uninformative)."""
    pep2prot = {}
    for name, seq in fasta_entries or []:
        base = name[len("decoy_"):] if name.startswith("decoy_") else name
        for tok in seq.split("K"):
            if tok:
                pep2prot.setdefault(tok + "K", set()).add(base)
    for t, s in zip(tables, scores):
        groups = {}
        for ri, v in enumerate(s):
            groups.setdefault(float(v), []).append(ri)
        cols = t["columns"]
        keysets = [[cols.index(c) for c in t["meta"]["spectrum"]], [cols.index("Peptide")]]
        keysets += [[cols.index(c)] for c in t["meta"]["level_cols"]]
        for rows in groups.values():
            if len(rows) < 2:
                continue
            for ks in keysets:
                seen = set()
                for ri in rows:
                    k = tuple(t["rows"][ri][j] for j in ks)
                    if k in seen:
                        return True
                    seen.add(k)
            if pep2prot:
                seen = set()
                pi = cols.index("Peptide")
                for ri in rows:
                    prots = pep2prot.get(t["rows"][ri][pi], set())
                    if prots & seen:
                        return True
                    seen |= prots
    return False


def compare_files(ref_files, got_files):
    """Returns None or (clause, message, signature)."""
    if sorted(ref_files) != sorted(got_files):
        only_r = sorted(set(ref_files) - set(got_files))
        only_g = sorted(set(got_files) - set(ref_files))
        return ("file_set", f"result files differ: only in reference {only_r}, only in perturbed {only_g}",
                {"leftover": bool(only_g)})
    for name in sorted(ref_files):
        h1, r1 = P.parse_result_file(ref_files[name])
        h2, r2 = P.parse_result_file(got_files[name])
        r1, r2 = canonical_tie_order(h1, r1), canonical_tie_order(h2, r2)
        level = name.split(".")[-1]
        if h1 != h2:
            return ("file_header", f"{name}: header {h2} != {h1}", {"level": level})
        if len(r1) != len(r2):
            return ("row_count", f"{name}: {len(r2)} rows, reference has {len(r1)}", {"level": level,
                    "more": len(r2) > len(r1)})
        # PEPs: triqler's iterative spline fit is ill-conditioned - measured: 11 of 48 scores differing by 1 ulp
        # (pandas' text float parser is not round-trip exact) moved a PEP from 0.0795 to 0.0480.  PEPs are therefore
        # compared (rtol 1e-6) only when every score of the file is bit-identical in both executions; otherwise the
        # perturbed PEP column must be well-formed: within [0, 1] and non-decreasing down the (best-first) file.
        # PEPs of a level are estimated from ALL retained rows of that level (targets and decoys), so strictness is a
        # property of the (prefix, level) pair and needs the decoy file to be visible
        strict_pep = False
        if "score" in h1 and ("targets." in name or "decoys." in name):
            partner = name.replace("targets.", "decoys.") if "targets." in name else name.replace("decoys.", "targets.")
            strict_pep = partner in ref_files
            for nm in (name, partner):
                if not strict_pep:
                    break
                ha, ra = P.parse_result_file(ref_files[nm])
                hb, rb = P.parse_result_file(got_files[nm])
                ra, rb = canonical_tie_order(ha, ra), canonical_tie_order(hb, rb)
                sj = ha.index("score") if "score" in ha else None
                if sj is None or ha != hb or len(ra) != len(rb) or any(
                        len(a) <= sj or len(b) <= sj or a[sj] != b[sj] for a, b in zip(ra, rb)):
                    strict_pep = False
        if "posterior_error_prob" in h2:
            pi = h2.index("posterior_error_prob")
            prev = -1.0
            for i, b in enumerate(r2):
                v = _num(b[pi]) if len(b) > pi else None
                if v is None or not (0.0 <= v <= 1.0):
                    return ("cell", f"{name} row {i}: PEP {b[pi] if len(b) > pi else None!r} is not a probability",
                            {"level": level, "column": "posterior_error_prob"})
                if v < prev - 1e-9:
                    return ("cell", f"{name} row {i}: PEP {v} decreases (previous row {prev}) although rows are ordered best "
                            "first", {"level": level, "column": "posterior_error_prob"})
                prev = v
        STATS["pep_strict" if strict_pep else "pep_loose"] += 1
        for i, (a, b) in enumerate(zip(r1, r2)):
            if len(a) != len(b):
                return ("row_shape", f"{name} row {i}: {len(b)} fields vs {len(a)}", {"level": level})
            for c, x, y in zip(h1, a, b):
                if x == y:
                    continue
                fx, fy = _num(x), _num(y)
                if fx is not None and fy is not None and c not in ("PSMId", "peptide", "proteinIds"):
                    if c == "score":
                        ok = np.isclose(fx, fy, rtol=1e-9, atol=1e-12)
                    elif c == "posterior_error_prob":
                        ok = (not strict_pep) or np.isclose(fx, fy, rtol=1e-6, atol=1e-9)
                    else:
                        ok = np.isclose(fx, fy, rtol=1e-6, atol=1e-9)
                    if ok:
                        continue
                return ("cell", f"{name} row {i} column {c}: perturbed {y!r} != reference {x!r}",
                        {"level": level, "column": c if c in ("score", "q-value", "posterior_error_prob") else "id/text"})
    return None


def _coefs(models):
    out = []
    for m in models or []:
        est = m.estimator
        c = getattr(est, "coef_", None)
        b = getattr(est, "intercept_", None)
        if c is None:
            return None
        out.append((np.asarray(c, float).ravel(), np.asarray(b, float).ravel()))
    return out


def _id_slice_only_nan(dp, kn, n_rows):
    if not dp.get("nan_feature") or "CHUNK_SIZE_COLUMNS_FOR_DROP_COLUMNS" not in kn:
        return False
    c = kn["CHUNK_SIZE_COLUMNS_FOR_DROP_COLUMNS"]
    n_id = 1 + len(dp["spec_extra"]) + 1
    return (dp["n_features"] + 2 + n_id) % c == n_id + 1 and kn.get("CHUNK_SIZE_ROWS_FOR_DROP_COLUMNS", 10**9) < min(n_rows)


def run_scenario(scn, workdir):
    tables = P.build_tables(scn["data"])
    cfg = dict(scn["cfg"])
    pert = scn["pert"]
    estimators.REGISTRY.clear()

    def uninf(why):
        return {"status": "uninformative", "message": why, "digest": digest(scn), "nontrivial": False,
                "probes": {}, "sample": None}

    if P.has_feature_ties(tables):
        return uninf("generated features contain an exact tie")

    if scn.get("fasta_seed") is not None:
        import os

        fa = os.path.join(workdir, "db.fasta")
        datagen.write_fasta(fa, P.fasta_for_tables(tables, scn["fasta_seed"]))
        cfg["fasta_path"] = fa
        cfg["fasta_kw"] = {"missed_cleavages": 0}
    ref_knobs = world.big_knobs()
    if "TRAIN_SETS_BLOCK_SIZE" in (pert.get("knobs") or {}):
        # not one of the streaming chunk sizes the statement quantifies over: on the shipped tree it is a literal, and the
        # order of the training rows legitimately depends on it (set iteration order inside a block).  It is varied from
        # scenario to scenario so that the block loop runs at all, but is the same in both executions of a scenario.
        ref_knobs["TRAIN_SETS_BLOCK_SIZE"] = pert["knobs"]["TRAIN_SETS_BLOCK_SIZE"]
    ref = P.run_pipeline(tables, cfg, workdir, "ref", fmt="pin", sched_desc={"mode": "fifo"},
                         knobs=ref_knobs, glob_seed=None)
    cfg2 = dict(cfg)
    cfg2["max_workers"] = pert["max_workers"]
    cfg2["parquet_nan_values"] = bool(pert.get("nan_values"))
    got = P.run_pipeline(tables, cfg2, workdir, "pert", fmt=pert["format"], row_group=pert.get("row_group"),
                         sched_desc=pert.get("sched"), knobs=pert.get("knobs"), glob_seed=pert.get("glob_seed"),
                         dict_strings=bool(pert.get("dict_strings")), index_start=int(pert.get("index_start") or 0))
    sch = got.sched
    sstats = sch.stats()
    kn = pert.get("knobs") or {}
    n_rows = [len(t["rows"]) for t in tables]
    nmax = max(n_rows)
    sites = sstats["switch_sites"]
    inter_task_switches = sstats["switches"] - 2 * sstats["parallel_calls"]

    probes = {
        "one_row_last_chunk": int(any(v < n and n % v == 1 for v in kn.values() for n in n_rows if v < 10**8)),
        "subsampled": int(cfg.get("subset_max_train") is not None and cfg["subset_max_train"] < sum(n_rows) * 0.6),
        "spill_files>=2": int(kn.get("CONFIDENCE_CHUNK_SIZE", 10**9) < nmax),
        "switch_in_get_rows": int(sites.get("get_rows_from_dataframe", 0) > 0),
        "switch_in_save_chunks": int(sites.get("_save_sorted_metadata_chunks", 0) > 0),
        "parquet": int(pert["format"] == "parquet"),
        "workers>=8": int(pert["max_workers"] >= 8),
        "dedup_off": int(not cfg["conf"]["dedup"]),
        "rollup_off": int(not cfg["conf"]["rollup"]),
        "multi_file": int(len(tables) > 1),
        "order_sensitive_learner": int(cfg["learner"] == "olda"),
        "sklearn_learner": int(cfg["learner"] in ("svc", "perc")),
        "proba_only_learner": int(cfg["learner"] == "plda"),
        "merge_chunk_small": int(kn.get("MERGE_SORT_CHUNK_SIZE", 10**9) < 10),
        "protein_level": int(scn.get("fasta_seed") is not None),
        "feature_with_missing_values": int(bool(scn["data"].get("nan_feature"))),
        "spectrum_key_with_missing_values": int(bool(scn["data"].get("nan_key"))),
        "parquet_dictionary_typed_strings": int(bool(scn["pert"].get("dict_strings"))),
        "parquet_written_from_sliced_frame": int(bool(scn["pert"].get("index_start"))),
        "text_feature_starts_with_whole_numbers": int(bool(scn["data"].get("whole_head"))),
        "ensemble_mode": int(bool(cfg.get("ensemble"))),
        "train_set_blocks>=2": int(kn.get("TRAIN_SETS_BLOCK_SIZE", 10**9) < nmax),
        "whole_number_spectrum_key_in_one_row_last_chunk": int(bool(scn["data"].get("whole_key_tail")) and pert["format"] == "pin"),
        "identifier_slice_holds_only_the_feature_with_missing_values": int(_id_slice_only_nan(scn["data"], kn, n_rows)),
        "parquet_missing_values_stored_as_nan": int(bool(pert.get("nan_values")) and bool(scn["data"].get("nan_feature") or scn["data"].get("nan_key"))),
    }
    rg = pert.get("row_group")
    if pert["format"] == "parquet" and rg:
        probes["rowgroup_inside_chunk"] = int(any(v < 10**8 and v % rg != 0 and rg % v != 0 for v in kn.values()))
    # spectrum in same / different confidence chunks
    ccs = kn.get("CONFIDENCE_CHUNK_SIZE", 10**9)
    same = diff = 0
    for t in tables:
        first = {}
        cols = t["columns"]
        si = [cols.index(c) for c in t["meta"]["spectrum"]]
        for ri, r in enumerate(t["rows"]):
            k = tuple(r[j] for j in si)
            ch = ri // ccs
            if k in first:
                if first[k] == ch:
                    same += 1
                else:
                    diff += 1
            else:
                first[k] = ch
    probes["spectrum_split_across_conf_chunks"] = int(diff > 0)
    probes["spectrum_within_one_conf_chunk"] = int(same > 0 and ccs < nmax)
    # prediction chunk lacking a fold: from the reference's recorded fold membership
    pcs = kn.get("CHUNK_SIZE_ROWS_PREDICTION", 10**9)
    if ref.models is not None and pcs < nmax and cfg["learner"] in ("olda", "rlda", "plda"):
        owner = {}
        for i, m in enumerate(ref.models):
            for e in getattr(m.estimator, "pred_log_", []):
                if e["phase"] == "predict":
                    for tg in e["tags"]:
                        owner[tg] = i
        lacks = 0
        for t in tables:
            tags = datagen.col(t, "tag")
            for start in range(0, len(tags), pcs):
                present = {owner.get(tg) for tg in tags[start:start + pcs]}
                if len(present - {None}) < cfg["folds"]:
                    lacks = 1
        probes["pred_chunk_lacks_fold"] = lacks

    nontrivial = bool(inter_task_switches > 0 or any(v < nmax for v in kn.values()) or pert["format"] != "pin")
    out = {
        "status": "ok",
        "digest": digest([scn["data"], scn["cfg"], scn.get("fasta_seed"), pert["format"], pert.get("row_group"), kn, pert["max_workers"],
                          world.sched_digest(sch), pert.get("glob_seed")]),
        "nontrivial": nontrivial,
        "probes": probes,
        "sched": sstats,
        "sched_digests": [world.sched_digest(sch)],
        "knobs": kn,
        "schedule": world.explicit_schedule(sch),
        "sample": {"data": scn["data"], "cfg": cfg, "pert": {k: v for k, v in pert.items()}, "rows": n_rows,
                   "switches": sstats["switches"], "steps": sstats["steps"]},
    }

    def viol(clause, msg, **sig):
        out.update(status="violation", clause=clause, message=msg, signature=sig)
        return out

    # scores that are not finite (a calibration group without decoys, or whose lowest accepted target equals the decoy
    # median) are outside every statement's quantifier; what the report stage then does with NaN scores - the text path
    # writes them out, the Parquet path raises - is not compared (found by a soak run: seed 2000, 1 of 3627 scenarios)
    if ref.scores and any(not np.all(np.isfinite(sc)) for sc in ref.scores):
        out.update(status="uninformative", message="reference scores are not finite (a fold whose lowest accepted target "
                   "equals the decoy median: outside the calibration statement's quantifier)")
        return out
    # (i) error parity
    if ref.exc is not None or got.exc is not None:
        if ref.exc is None:
            return viol("perturbed_run_failed", f"reference succeeded but perturbed execution failed: {got.error}",
                        **got.err_sig())
        if got.exc is None:
            return viol("reference_only_failed", f"perturbed execution succeeded but the reference failed: {ref.error}",
                        **ref.err_sig())
        if type(ref.exc) is not type(got.exc) or ref.stage != got.stage:
            return viol("different_errors", f"reference: {ref.error}; perturbed: {got.error}",
                        ref=ref.err_sig(), got=got.err_sig())
        if not exc_is_domain(ref.exc):
            return viol("run_failed", f"both executions fail with an error that is not a data-domain error: {ref.error}",
                        **ref.err_sig())
        out.update(status="uninformative", message=f"both executions raise: {ref.error}"[:160])
        return out
    # ties in the reference make competition winners arbitrary
    if any(not np.all(np.isfinite(sc)) for sc in ref.scores):
        out.update(status="uninformative", message="reference scores are not finite (a fold whose lowest accepted target "
                   "equals the decoy median: outside the calibration statement's quantifier)")
        return out
    fasta_entries = P.fasta_for_tables(tables, scn["fasta_seed"]) if scn.get("fasta_seed") is not None else None
    if competing_ties(tables, ref.scores, fasta_entries):
        out.update(status="uninformative", message="reference scores tie exactly between competing rows")
        return out
    # (ii) parsed
    for i, (a, b) in enumerate(zip(ref.parsed, got.parsed)):
        for k in ("feature_columns", "spectrum_columns", "metadata_columns", "level_columns", "n", "targets"):
            if a[k] != b[k]:
                return viol("parsed_dataset", f"file {i}: parsed {k} differs: {str(b[k])[:120]} vs reference {str(a[k])[:120]}",
                            field=k)
    # (iii) scores
    if ref.descs != got.descs:
        return viol("descs", f"descs {got.descs} != reference {ref.descs}")
    for i, (a, b) in enumerate(zip(ref.scores, got.scores)):
        if a.shape != b.shape:
            return viol("scores_shape", f"file {i}: {b.shape} scores vs {a.shape}")
        if not np.allclose(a, b, rtol=1e-9, atol=1e-12, equal_nan=True):
            k = int(np.nanargmax(np.abs(a - b)))
            perm = bool(np.allclose(np.sort(a), np.sort(b), rtol=1e-9, atol=1e-12, equal_nan=True))
            return viol("scores", f"file {i}: score of row {k} is {b[k]!r}, reference {a[k]!r} "
                        f"(same multiset of scores: {perm})", permuted=perm)
    ca, cb = _coefs(ref.models), _coefs(got.models)
    if ca is not None and cb is not None:
        for i, ((w1, b1), (w2, b2)) in enumerate(zip(ca, cb)):
            if not (np.allclose(w1, w2, rtol=1e-7, atol=1e-10) and np.allclose(b1, b2, rtol=1e-7, atol=1e-10)):
                return viol("coefficients", f"model of fold {i + 1}: coefficients differ {w2} vs {w1}")
    # (iv) files
    STATS.update(pep_strict=0, pep_loose=0)
    bad = compare_files(ref.files, got.files)
    probes["pep_files_compared_strictly"] = STATS["pep_strict"]
    probes["pep_files_checked_for_shape_only"] = STATS["pep_loose"]
    if bad is not None:
        clause, msg, sig = bad
        return viol(clause, msg, **sig)
    return out


def shrink_candidates(scn):
    cfg, dp, pert = scn["cfg"], scn["data"], scn["pert"]
    if pert["max_workers"] > 1:
        c = clone(scn); c["pert"]["max_workers"] = 1; c["pert"]["sched"] = {"mode": "fifo"}; yield c
        if pert["max_workers"] > 2:
            c = clone(scn); c["pert"]["max_workers"] = 2; yield c
    if pert["format"] != "pin":
        c = clone(scn); c["pert"]["format"] = "pin"; c["pert"]["row_group"] = None; yield c
    for k in list(pert.get("knobs") or {}):
        c = clone(scn); del c["pert"]["knobs"][k]; yield c
    if pert.get("glob_seed") is not None:
        c = clone(scn); c["pert"]["glob_seed"] = None; yield c
    sd = pert.get("sched") or {}
    if sd.get("mode") in ("random", "pct") and pert["max_workers"] > 1:
        c = clone(scn); c["pert"]["sched"] = {"mode": "fifo"}; yield c
    if cfg["confidence"]:
        c = clone(scn); c["cfg"]["confidence"] = False; yield c
    for k in ("decoys",):
        if cfg["conf"].get(k):
            c = clone(scn); c["cfg"]["conf"][k] = False; yield c
    if not cfg["conf"].get("dedup", True):
        c = clone(scn); c["cfg"]["conf"]["dedup"] = True; yield c
    if cfg["conf"].get("rollup", True):
        c = clone(scn); c["cfg"]["conf"]["rollup"] = False; yield c
    if scn.get("fasta_seed") is not None:
        c = clone(scn); c["fasta_seed"] = None; yield c
    if dp["n_files"] > 1:
        c = clone(scn); c["data"]["n_files"] = dp["n_files"] - 1; yield c
    if cfg.get("subset_max_train") is not None:
        c = clone(scn); c["cfg"]["subset_max_train"] = None; yield c
    if cfg["learner"] != "rlda":
        c = clone(scn); c["cfg"]["learner"] = "rlda"; yield c
    if cfg.get("ensemble"):
        c = clone(scn); c["cfg"]["ensemble"] = False; yield c
    if cfg["folds"] > 2:
        c = clone(scn); c["cfg"]["folds"] = cfg["folds"] - 1; yield c
    if cfg["max_iter"] > 1:
        c = clone(scn); c["cfg"]["max_iter"] = 1; yield c
    if dp["level_cols"]:
        c = clone(scn); c["data"]["level_cols"] = []; yield c
    if dp.get("nan_feature"):
        c = clone(scn); c["data"]["nan_feature"] = 0; yield c
    if dp.get("nan_key"):
        c = clone(scn); c["data"]["nan_key"] = 0; yield c
    if scn["pert"].get("dict_strings"):
        c = clone(scn); c["pert"]["dict_strings"] = False; yield c
    if scn["pert"].get("index_start"):
        c = clone(scn); c["pert"]["index_start"] = 0; yield c
    if scn["pert"].get("nan_values"):
        c = clone(scn); c["pert"]["nan_values"] = False; yield c
    if dp.get("whole_head"):
        c = clone(scn); c["data"]["whole_head"] = None; c["cfg"]["g_format"] = False; yield c
    for x in list(dp["spec_extra"]):
        c = clone(scn); c["data"]["spec_extra"] = [y for y in dp["spec_extra"] if y != x]; yield c
    if dp["n_spectra"] > 70:
        c = clone(scn); c["data"]["n_spectra"] = max(70, int(dp["n_spectra"] * 0.75)); yield c
    if dp["max_per_spectrum"] > 1:
        c = clone(scn); c["data"]["max_per_spectrum"] = dp["max_per_spectrum"] - 1; yield c
    if dp["n_features"] > 2:
        c = clone(scn); c["data"]["n_features"] = dp["n_features"] - 1; yield c
    if dp["label_enc"] != "pm1":
        c = clone(scn); c["data"]["label_enc"] = "pm1"; yield c
    # shrink remaining knobs towards simple values
    for k, v in (pert.get("knobs") or {}).items():
        if v > 2 and v < 10**8:
            c = clone(scn); c["pert"]["knobs"][k] = max(1, v // 2); yield c
