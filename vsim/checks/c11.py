"""C11 - per-fold score calibration (World A)."""

from __future__ import annotations

from ..driver import seeds_for
from . import pipe_common as pc

PROPERTY = "C11"
SCHED_PATH = ("sched",)
LEVEL = "exploration"
QUICK_N = 320
SCENARIO_TIMEOUT = 180
PROBES = [p for p in pc.PROBES if p not in ['subsampled', 'cap_not_binding', 'multi_psm_spectra', 'scan_only_key', 'four_col_key', 'proba_only_learner', 'trained_models_reused_with_other_seed']]
RULE = (
    "Same World-A executions as C02 (own seeds): brew under the seeded scheduler with a recording estimator. "
    "Oracle per (fold, collection): from the recorded raw outputs r of the prediction phase and the true target "
    "flags, reference TDC at test_fdr gives the accepted targets, t0 = min r[accepted], d = median r[decoys]; "
    "if t0 > d the returned scores must equal (r - t0)/(t0 - d) (rtol 1e-9); a fold accepting no target must make "
    "brew raise, and the calibration error must not be raised when every fold accepts a target. "
    "distinct = distinct (data, config, format, knobs, schedule digest); non-trivial as in C02."
)
ASSUMPTIONS = [
    "folds whose lowest accepted target is not above the decoy median are outside the statement's quantifier (skipped)",
    "scenarios with a reference q-value within 1e-6 of test_fdr are uninformative (float32 FDR in tdc, a C01 matter)",
]
REAL = ["mokapot.brew", "mokapot.dataset.calibrate_scores", "mokapot.parsers.pin", "mokapot.model.Model", "pandas",
        "pyarrow", "file system (/dev/shm)"]
STUBS = ["joblib.Parallel -> vsim.sched.SimParallel", "estimator -> vsim.estimators.RecordingLDA"]


def scenarios(tier, batch_seed):
    for _i, s in seeds_for(PROPERTY, batch_seed):
        yield pc.make_scenario(PROPERTY, s)


def run_scenario(scn, workdir):
    return pc.run_scenario(scn, workdir, "C11")


shrink_candidates = pc.shrink_candidates
