from __future__ import annotations

import hashlib
import json
import os


def derive_seed(*parts):
    h = hashlib.blake2b(digest_size=8)
    for p in parts:
        h.update(repr(p).encode())
        h.update(b"\0")
    return int.from_bytes(h.digest(), "big") >> 1  # 63 bits, JSON-safe


def digest(obj):
    return hashlib.blake2b(
        json.dumps(obj, sort_keys=True, default=repr).encode(), digest_size=10
    ).hexdigest()


def digest_bytes(*chunks):
    h = hashlib.blake2b(digest_size=12)
    for c in chunks:
        if isinstance(c, str):
            c = c.encode()
        h.update(c)
        h.update(b"\xff")
    return h.hexdigest()


def code_fingerprint():
    """Hash of the mokapot sources the checks run against."""
    import mokapot

    root = os.path.dirname(os.path.abspath(mokapot.__file__))
    h = hashlib.blake2b(digest_size=10)
    for dirpath, dirnames, filenames in os.walk(root):
        dirnames.sort()
        for f in sorted(filenames):
            if f.endswith(".py"):
                p = os.path.join(dirpath, f)
                h.update(os.path.relpath(p, root).encode())
                with open(p, "rb") as fh:
                    h.update(fh.read())
    return h.hexdigest()


def mokapot_root():
    import mokapot

    return os.path.dirname(os.path.dirname(os.path.abspath(mokapot.__file__)))


def exc_site(exc):
    """(function name, file basename) of the innermost mokapot frame of a traceback."""
    import traceback

    site = None
    for fs in traceback.extract_tb(exc.__traceback__):
        fn = fs.filename.replace("\\", "/")
        if "/mokapot/" in fn and "/vsim/" not in fn:
            site = f"{fn.split('/mokapot/')[-1]}:{fs.name}"
    return site or "?"


def short_msg(exc, n=120):
    import re

    s = f"{type(exc).__name__}: {exc}"
    s = re.sub(r"/[^\s'\"]+", "<path>", s)
    return s[:n]


_DOMAIN_RUNTIME = ("No PSMs found below", "No PSMs accepted at train_fdr", "No target PSMs were below",
                   "Failed to calibrate", "Model performs worse")


def is_domain_error(etype, msg, site=""):
    """True for the failures mokapot (or triqler) legitimately raises on data outside the domain a scenario is
    meant to exercise: nothing accepted at the FDR threshold, degenerate levels for PEP estimation, too few matched
    peptides for the protein level.  Anything else that makes a run fail is reported, never silently 'uninformative'."""
    msg = str(msg or "")
    site = str(site or "")
    if etype == "RuntimeError" and any(m in msg for m in _DOMAIN_RUNTIME):
        return True
    # triqler / PEP estimation on degenerate score distributions (C06's domain)
    if etype == "ValueError" and "negative dimensions" in msg:
        return True
    if etype == "TypeError" and "has no len()" in msg and "create_chunks" in site:
        return True  # `self.peps = 0` fallback after 'no decoy hits available'
    if etype in ("LinAlgError", "IndexError", "ZeroDivisionError", "FloatingPointError") and ("peps" in site or "qvality" in msg or "peps" in msg):
        return True
    if etype == "SystemExit":
        return True
    if etype == "ValueError" and ("Fewer than 90% of all peptides" in msg or "Fewer than 5% of decoy peptides" in msg):
        return True
    if etype == "ValueError" and "PEP values are all equal to 1" in msg:
        return True
    return False


def exc_is_domain(exc):
    return is_domain_error(type(exc).__name__, str(exc), exc_site(exc))
