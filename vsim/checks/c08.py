"""C08 - fixed seed gives bit-identical results across runs, interpreter
sessions (hash seeds), worker schedules and orderings of fed-back models.

A scenario is executed as a history:
  base   read_pin -> brew -> assign_confidence (PSM, peptide, protein level), 1 worker
  (a)    the same again in the same process
  (b)    the same in a FRESH interpreter with another PYTHONHASHSEED
  (c)    with max_workers > 1 under several different seeded schedules
  (d)    brew with model = every permutation of the models returned by base
Oracle: byte equality of digests (fold assignment, coefficients, scores,
descs, every result file; canonical digest of the FASTA maps)."""

from __future__ import annotations

import itertools
import json
import os
import random
import subprocess
import sys
from pathlib import Path

import numpy as np

from .. import datagen, estimators, world
from ..driver import clone, seeds_for
from ..util import digest, digest_bytes, exc_is_domain
from ..worlds import pipeline as P

PROPERTY = "C08"
LEVEL = "exploration"
QUICK_N = 40
SCENARIO_TIMEOUT = 420
PROBES = ["fresh_interpreter_ok", "schedules_compared", "permutations_compared", "protein_level", "sklearn_learner", "default_model", "best_ranked_rows_are_decoys",
          "order_sensitive_learner", "multi_file", "parquet", "subsampled", "subset_proteins_in_fasta",
          "switches>0", "folds4_all_24_perms", "tied_scores_at_every_level", "confidence_rng_left_at_default",
          "target_only_fasta", "decoy_peptide_with_two_candidate_targets", "through_command_line"]
RULE = (
    "Each scenario (seeded data + FASTA whose digest yields the table's peptides, learner in {OrderLDA, RecordingLDA, "
    "LinearSVC, PercolatorModel}, folds 2-4, seed, chunk knobs) is executed as a history: base run; repeat in the same "
    "process; repeat in a fresh interpreter under a different PYTHONHASHSEED; runs with 2-8 workers under 3 different "
    "seeded schedules; brew with every permutation (all, folds <= 4) of the returned models. Oracle: byte equality of "
    "digests of fold assignment, coefficients, scores, descs and all result files (PSM, peptide, protein level). "
    "distinct = distinct (data, config, knobs, schedule digests, hash seed); non-trivial = the fresh-interpreter run "
    "completed and at least one multi-worker schedule had a context switch."
)
ASSUMPTIONS = [
    "bit identity is demanded between executions with identical chunk knobs (different chunking may change float "
    "summation order; that is C05's tolerance)",
    "fold assignment is observed through the recording estimator (LDA learners) - for scikit-learn learners it is "
    "covered indirectly by coefficients and scores",
    "the fresh interpreter differs in PYTHONHASHSEED only (same packages, same machine)",
]
REAL = ["mokapot.read_pin", "mokapot.brew", "mokapot.assign_confidence", "mokapot.read_fasta", "mokapot.picked_protein",
        "scikit-learn learners", "pandas", "pyarrow", "triqler", "a second CPython interpreter per scenario"]
STUBS = ["joblib.Parallel -> vsim.sched.SimParallel", "estimator -> RecordingLDA/OrderLDA in most runs",
         "np.random.default_rng(None) -> seeded from the simulator's entropy stream (unseeded generators are a seam)",
         "np.empty / np.empty_like requested by mokapot code -> poisoned with a value from the entropy stream (uninitialised memory is a seam)"]


def make_scenario(seed):
    rng = random.Random(seed)
    dp = P.gen_data_params(rng, small=True, level_cols_p=0.15, allow_scan_only=True)
    dp["n_files"] = rng.choice([1, 1, 2])
    dp["n_spectra"] = rng.randint(110, 160)
    per_file = int(dp["n_spectra"] * (1 + dp["max_per_spectrum"]) / 2)
    folds = rng.choice([2, 3, 3, 4])
    dp["size_factors"] = [1.0] * dp["n_files"]
    while folds > 2 and per_file / folds < 45:
        folds -= 1
    learner = rng.choices(["olda", "rlda", "svc", "perc", "default"], weights=[45, 12, 15, 13, 15])[0]
    if rng.random() < 0.3:
        dp["top_decoys"] = rng.choice([1, 2])  # the best-ranked entries of every level are decoys
    if learner == "default":
        # brew(model=None, rng=seed): the default model's train_fdr of 0.01 needs a larger, well separated data set
        dp.update(n_files=1, n_spectra=rng.randint(700, 900), shift=3.0, frac_correct=0.6, max_per_spectrum=2,
                  n_features=rng.randint(4, 5), size_factors=None, top_decoys=0)
        per_file = int(dp["n_spectra"] * 1.5)
        folds = 3
    cfg = {
        "learner": learner, "folds": folds, "test_fdr": 0.0531 if learner == "default" else rng.choice([0.2113, 0.3071]),
        "train_fdr": 0.2113,
        "max_iter": rng.choice([1, 2]), "seed": rng.randint(0, 10**6),
        "subset_max_train": None if rng.random() < 0.7 else rng.randint(60, per_file),
        "max_workers": 1, "confidence": True, "override": True,
        "conf": {"decoys": True, "dedup": True, "rollup": True},
    }
    if rng.random() < 0.4:
        cfg["quantise_scores"] = rng.choice([0, 1, 1])  # exact ties between peptides of a protein / target and decoy
        cfg["conf_rng_default"] = rng.random() < 0.6
    kn = {}
    for name in ("CONFIDENCE_CHUNK_SIZE", "CHUNK_SIZE_READ_ALL_DATA", "CHUNK_SIZE_ROWS_PREDICTION", "MERGE_SORT_CHUNK_SIZE"):
        if rng.random() < 0.5:
            kn[name] = datagen.knob_value(rng, per_file)
    fmt = rng.choice(["pin", "pin", "parquet"])
    scheds = []
    for _ in range(3):
        w = rng.choice([2, 3, 4, 8])
        scheds.append({"max_workers": w, "sched": world.gen_sched(rng, w, est_steps=6000)})
    scn = {"property": PROPERTY, "seed": seed, "data": dp, "cfg": cfg, "knobs": kn, "format": fmt,
           "row_group": rng.choice([None, 11, 64]) if fmt == "parquet" else None,
           "fasta_seed": rng.getrandbits(16), "hash_seed": rng.randint(1, 4_000_000_000), "scheds": scheds}
    r2 = random.Random(f"c08-ext|{seed}")
    # a protein database without decoy entries (the supported "less ideal" case): decoy peptides are then paired with
    # target peptides of equal composition, so the table's peptides are renamed to make such pairs exist
    scn["fasta_mode"] = "target_only" if r2.random() < 0.3 else "with_decoys"
    # the same analysis through the command line entry point (text input, scores as brew returns them)
    if fmt == "pin" and cfg.get("quantise_scores") is None and r2.random() < 0.6:
        cfg["via_cli"] = True
    return scn


def scenarios(tier, batch_seed):
    for _i, s in seeds_for(PROPERTY, batch_seed):
        yield make_scenario(s)


# ------------------------------------------------------------------ execution
def _fasta_digest(proteins):
    if proteins is None:
        return None
    pm = sorted((pep, tuple(sorted(g.split(", ")))) for pep, g in proteins.peptide_map.items())
    sh = sorted(proteins.shared_peptides)
    mp = sorted(proteins.protein_map.items())
    return digest([pm, sh, mp])


def _digests(res, with_files=True):
    d = {}
    if res.exc is not None:
        return {"error": f"{type(res.exc).__name__}@{res.stage}"}
    d["descs"] = digest(res.descs)
    d["scores"] = digest_bytes(*[np.ascontiguousarray(s, dtype=float).tobytes() for s in res.scores])
    folds, coefs = [], []
    for m in res.models:
        est = m.estimator
        if hasattr(est, "pred_log_"):
            tags = set()
            for e in est.pred_log_:
                if e["phase"] == "predict":
                    tags.update(e["tags"])
            folds.append(sorted(tags))
        c = getattr(est, "coef_", None)
        if c is not None:
            coefs.append(np.ascontiguousarray(c, dtype=float).tobytes())
            coefs.append(np.ascontiguousarray(getattr(est, "intercept_", 0.0), dtype=float).tobytes())
    d["folds"] = digest(folds) if folds else None
    d["coef"] = digest_bytes(*coefs) if coefs else None
    if with_files:
        for name, raw in sorted(res.files.items()):
            d["file:" + name] = digest_bytes(raw)
        d["fasta_maps"] = _fasta_digest(res.proteins)
    return d


def execute(scn, workdir, name, max_workers=1, sched=None, models_in=None, stop_after=None):
    tables = P.build_tables(scn["data"])
    target_only = scn.get("fasta_mode") == "target_only"
    if target_only:
        tables = P.make_isobaric(tables, scn["fasta_seed"])
    cfg = dict(scn["cfg"])
    cfg["max_workers"] = max_workers
    if models_in is not None:
        cfg["via_cli"] = False  # models are handed back through the Python API
    root = Path(workdir) / name
    os.makedirs(root, exist_ok=True)
    # the ambient state of the process-global generators differs from execution to execution (it is whatever earlier
    # work left behind); a fixed seed has to make the analysis independent of it
    np.random.seed(world._ENTROPY.getrandbits(32))
    random.seed(world._ENTROPY.getrandbits(32))
    if stop_after is None:
        fa = root / "db.fasta"
        datagen.write_fasta(fa, P.fasta_for_tables(tables, scn["fasta_seed"], with_decoys=not target_only))
        cfg["fasta_path"] = fa
        cfg["fasta_kw"] = {"missed_cleavages": 0}
    estimators.REGISTRY.clear()
    res = P.run_pipeline(tables, cfg, workdir, name, fmt=scn["format"], row_group=scn.get("row_group"),
                         sched_desc=sched or {"mode": "fifo"}, knobs=scn.get("knobs"), models_in=models_in,
                         stop_after=stop_after)
    return res


def child_main():
    """Entry point of the fresh interpreter: scenario JSON on stdin -> digests JSON on stdout."""
    from .. import pool

    scn = json.loads(sys.stdin.read())
    pool.warm_up()
    random.seed(1)
    np.random.seed(1)
    world.seed_entropy(f"fresh|{scn.get('seed')}")
    wd = scn["_workdir"]
    res = execute(scn, wd, "fresh")
    out = {"digests": _digests(res), "hashseed": os.environ.get("PYTHONHASHSEED"), "error": res.error}
    sys.stdout.write("\nVSIM-C08-RESULT " + json.dumps(out) + "\n")


def _diff(a, b):
    keys = sorted(set(a) | set(b))
    return [k for k in keys if a.get(k) != b.get(k)]


def _component(keys):
    for k in ("error", "folds", "coef", "scores", "descs"):
        if k in keys:
            return k
    for k in keys:
        if k.startswith("file:"):
            return "file:" + k.split(".")[-1]
    return keys[0] if keys else "?"


def run_scenario(scn, workdir):
    probes = {
        "sklearn_learner": int(scn["cfg"]["learner"] in ("svc", "perc")),
        "default_model": int(scn["cfg"]["learner"] == "default"),
        "best_ranked_rows_are_decoys": int(bool(scn["data"].get("top_decoys"))),
        "order_sensitive_learner": int(scn["cfg"]["learner"] == "olda"),
        "multi_file": int(scn["data"]["n_files"] > 1),
        "parquet": int(scn["format"] == "parquet"),
        "subsampled": int(scn["cfg"]["subset_max_train"] is not None),
        "target_only_fasta": int(scn.get("fasta_mode") == "target_only"),
        "through_command_line": int(bool(scn["cfg"].get("via_cli"))),
    }
    out = {"status": "ok", "probes": probes, "knobs": scn.get("knobs") or {}, "nontrivial": False,
           "sample": {k: scn.get(k) for k in ("data", "cfg", "knobs", "format", "hash_seed", "scheds", "fasta_mode")}}

    def viol(clause, msg, **sig):
        out.update(status="violation", clause=clause, message=msg, signature=sig)
        return out

    base = execute(scn, workdir, "base")
    d0 = _digests(base)
    out["digest"] = digest([scn["data"], scn["cfg"], scn["knobs"], scn["format"], scn["hash_seed"], scn.get("fasta_mode")])
    if "error" in d0:
        if not exc_is_domain(base.exc):
            return viol("run_failed", f"base run fails with an error that is not a data-domain error: {base.error}",
                        **base.err_sig())
        out.update(status="uninformative", message=f"base run fails: {base.error}"[:160])
        return out
    probes["protein_level"] = int(any(k.endswith(".proteins") for k in d0))
    probes["tied_scores_at_every_level"] = int(scn["cfg"].get("quantise_scores") is not None)
    probes["confidence_rng_left_at_default"] = int(bool(scn["cfg"].get("conf_rng_default")))
    probes["subset_proteins_in_fasta"] = int(base.proteins is not None and any(", " in g for g in base.proteins.peptide_map.values()))
    if scn.get("fasta_mode") == "target_only" and base.proteins is not None:
        comp = {}
        for pep in base.proteins.peptide_map:
            comp["".join(sorted(pep))] = comp.get("".join(sorted(pep)), 0) + 1
        tabs = P.make_isobaric(P.build_tables(scn["data"]), scn["fasta_seed"])
        n2 = 0
        for t in tabs:
            pi = t["columns"].index("Peptide")
            for r, is_t in zip(t["rows"], datagen.targets_of(t)):
                if not is_t and comp.get("".join(sorted(r[pi])), 0) >= 2:
                    n2 += 1
        probes["decoy_peptide_with_two_candidate_targets"] = int(n2 > 0)
    # (a) repeat in the same process
    rep = execute(scn, workdir, "repeat")
    d1 = _digests(rep)
    bad = _diff(d0, d1)
    if bad:
        return viol("same_process_repeat", f"second run in the same process differs in {bad[:6]}", component=_component(bad))
    # (c) schedules
    sched_digests = []
    switches = 0
    steps = 0
    for i, sd in enumerate(scn["scheds"]):
        r = execute(scn, workdir, f"sched{i}", max_workers=sd["max_workers"], sched=sd["sched"])
        st = r.sched.stats()
        switches += max(0, st["switches"] - 2 * st["parallel_calls"])
        steps += st["steps"]
        sched_digests.append(world.sched_digest(r.sched))
        di = _digests(r)
        bad = _diff(d0, di)
        if bad:
            out["schedule"] = world.explicit_schedule(r.sched)
            return viol("schedule", f"run with {sd['max_workers']} workers under schedule {sd['sched']} differs from the "
                        f"1-worker run in {bad[:6]}", component=_component(bad))
    probes["schedules_compared"] = len(scn["scheds"])
    probes["switches>0"] = int(switches > 0)
    out["sched"] = {"steps": steps, "switches": switches}
    out["sched_digests"] = sched_digests
    # (d) permutations of the returned models
    models = base.models
    perms = list(itertools.permutations(range(len(models))))
    n_perm = 0
    for perm in perms[1:]:
        r = execute(scn, workdir, "perm", models_in=[models[i] for i in perm], stop_after="brew")
        dp = _digests(r, with_files=False)
        n_perm += 1
        if dp.get("scores") != d0["scores"] or dp.get("descs") != d0["descs"]:
            return viol("model_permutation", f"feeding the returned models back in order {perm} gives "
                        f"{'an error ' + str(r.error) if 'error' in dp else 'different scores'}", component=_component(_diff(
                            {k: d0[k] for k in ("scores", "descs")}, {k: dp.get(k) for k in ("scores", "descs")})))
    # identity order as well
    r = execute(scn, workdir, "perm", models_in=list(models), stop_after="brew")
    dp = _digests(r, with_files=False)
    if dp.get("scores") != d0["scores"]:
        return viol("model_permutation", "feeding the returned models back in the returned order gives different scores",
                    component="scores")
    probes["permutations_compared"] = n_perm + 1
    probes["folds4_all_24_perms"] = int(len(perms) == 24)
    # (b) fresh interpreter with another hash seed
    env = dict(os.environ)
    env["PYTHONHASHSEED"] = str(scn["hash_seed"] % 4294967295)
    payload = dict(scn)
    payload["_workdir"] = str(Path(workdir) / "fresh_root")
    os.makedirs(payload["_workdir"], exist_ok=True)
    cp = subprocess.run([sys.executable, "-c", "from vsim.checks.c08 import child_main; child_main()"],
                        input=json.dumps(payload), capture_output=True, text=True, env=env, timeout=300)
    line = [ln for ln in cp.stdout.splitlines() if ln.startswith("VSIM-C08-RESULT ")]
    if cp.returncode != 0 or not line:
        raise RuntimeError(f"fresh interpreter failed rc={cp.returncode}: {cp.stderr[-1500:]}")
    fresh = json.loads(line[-1][len("VSIM-C08-RESULT "):])
    if fresh["hashseed"] != env["PYTHONHASHSEED"]:
        raise RuntimeError("hash seed not applied in the fresh interpreter")
    bad = _diff(d0, fresh["digests"])
    if bad:
        return viol("hash_seed_or_session", f"fresh interpreter with PYTHONHASHSEED={env['PYTHONHASHSEED']} differs in "
                    f"{bad[:6]} ({fresh.get('error')})", component=_component(bad))
    probes["fresh_interpreter_ok"] = 1
    out["nontrivial"] = bool(switches > 0)
    out["digest"] = digest([out["digest"], sched_digests])
    return out


def shrink_candidates(scn):
    dp, cfg = scn["data"], scn["cfg"]
    if cfg.get("via_cli"):
        c = clone(scn); c["cfg"]["via_cli"] = False; yield c
    if scn.get("fasta_mode") == "target_only":
        c = clone(scn); c["fasta_mode"] = "with_decoys"; yield c
    if len(scn["scheds"]) > 1:
        for i in range(len(scn["scheds"])):
            c = clone(scn); c["scheds"] = [scn["scheds"][i]]; yield c
    if scn["format"] != "pin":
        c = clone(scn); c["format"] = "pin"; c["row_group"] = None; yield c
    for k in list(scn.get("knobs") or {}):
        c = clone(scn); del c["knobs"][k]; yield c
    if dp["n_files"] > 1:
        c = clone(scn); c["data"]["n_files"] = 1; yield c
    if cfg["folds"] > 2:
        c = clone(scn); c["cfg"]["folds"] -= 1; yield c
    if cfg["learner"] != "rlda":
        c = clone(scn); c["cfg"]["learner"] = "rlda"; yield c
    if cfg.get("subset_max_train") is not None:
        c = clone(scn); c["cfg"]["subset_max_train"] = None; yield c
    if cfg["max_iter"] > 1:
        c = clone(scn); c["cfg"]["max_iter"] = 1; yield c
    if dp["level_cols"]:
        c = clone(scn); c["data"]["level_cols"] = []; yield c
    if dp["n_spectra"] > 110:
        c = clone(scn); c["data"]["n_spectra"] = 110; yield c
    if dp["max_per_spectrum"] > 1:
        c = clone(scn); c["data"]["max_per_spectrum"] -= 1; yield c
