from __future__ import annotations

import argparse
import importlib
import os
import sys

CHECKS = {
    "C02": "vsim.checks.c02",
    "C03": "vsim.checks.c03",
    "C05": "vsim.checks.c05",
    "C07": "vsim.checks.c07",
    "C08": "vsim.checks.c08",
    "C09": "vsim.checks.c09",
    "C10": "vsim.checks.c10",
    "C11": "vsim.checks.c11",
    "C13": "vsim.checks.c13",
    "C14": "vsim.checks.c14",
    "C16": "vsim.checks.c16",
}


def _assert_repo():
    import mokapot

    repo = os.path.abspath(os.environ.get("VERIF_REPO", "/repo"))
    where = os.path.abspath(mokapot.__file__)
    if not where.startswith(repo + os.sep):
        print(f"HARNESS-ERROR mokapot imported from {where}, expected under {repo}")
        sys.exit(3)


def main(argv):
    ap = argparse.ArgumentParser(prog="check")
    ap.add_argument("target")
    ap.add_argument("--tier", default=os.environ.get("VERIF_TIER", "quick"), choices=["quick", "thorough"])
    ap.add_argument("--replay")
    ap.add_argument("--seed", type=int, default=int(os.environ.get("VERIF_SEED", "0") or 0))
    ap.add_argument("--n", type=int, default=None, help="override number of scenarios")
    ap.add_argument("--budget", type=float, default=None, help="thorough wall budget (s)")
    ap.add_argument("--procs", type=int, default=None)
    ap.add_argument("rest", nargs="*")
    args = ap.parse_args(argv)
    _assert_repo()

    if args.target.startswith("selftest"):
        from . import selftest

        return selftest.main(args)

    if args.target not in CHECKS:
        print(f"unknown check {args.target}; known: {sorted(CHECKS)}")
        return 2
    mod = importlib.import_module(CHECKS[args.target])
    from . import driver

    if args.replay:
        return driver.replay_main(mod, args.replay)
    if hasattr(mod, "main"):
        return mod.main(args)
    return driver.run_check(mod, tier=args.tier, batch_seed=args.seed, budget_s=args.budget,
                            n_procs=args.procs, max_n=args.n)
