#!/usr/bin/env python3
"""Regenerates /verif/MANIFEST.json from the table below (kept in one place so
that the manifest is always schema-valid and in step with the checks)."""
import json
import os
import sys

HERE = os.path.dirname(os.path.dirname(os.path.abspath(__file__)))

NA = {
    "C01": "pure function of (scores, labels, direction): no schedule, fault, crash point or history to simulate; its formula is re-implemented as the oracle used inside C03/C07/C11",
    "C04": "statement about the expectation of a false-discovery proportion over a data distribution (Monte-Carlo estimation, not a schedule/fault search); its two mechanisms are decided by C02 (no leakage) and C03 (competition before estimation, +1 formula)",
    "C06": "pure numerical estimators of (scores, labels, algorithm); no seam, schedule or fault in the statement",
    "C12": "Model.fit/predict/save/load run sequentially on private state with an explicit RNG argument; quantifier is over inputs and switches only",
    "C15": "pure table-to-table function (picked_protein); no schedule, stream fault or history in the statement",
    "C17": "pure string function (digest)",
    "C18": "pure function of (FASTA text, RNG state); the randomness is an input, not a schedule",
    "C19": "pure text transformation; the one place where it meets a history of earlier runs (the CLI's temporary .tsv) is decided under C09",
    "C20": "pure parse of one document (lxml.iterparse), no fault or interleaving in the statement",
}

# id -> (level, design_ref, technique, level text, level note)
CHECKS = {}


def check(pid, level, ref, technique, text, note):
    CHECKS[pid] = (level, ref, technique, text, note)


check(
    "C10", "exploration", "DESIGN.md §5 C10",
    "deterministic simulation: read_pin's column-scan workers under a seeded baton-passing scheduler, seeded scan chunk sizes / row groups / table shapes, checked against a plain-Python parse model",
    "Seeded search over table shapes x scan-chunk knobs x worker schedules with a reference parse model as oracle; sampling, not proof. Right level because the failures depend on feature-count modulo chunk-size and on which worker appends the identifier frame, which only a controlled sweep reaches.",
    "Trusts pandas/pyarrow as installed, the generator's notion of 'well-formed' (listed in evidence.assumptions) and SimParallel's fidelity to joblib's threading backend (selftest-fidelity).",
)

PENDING = {}


def main():
    ids = [json.loads(line)["id"] for line in open(os.path.join(HERE, "properties.jsonl"))]
    checks = []
    for pid in ids:
        if pid not in CHECKS:
            continue
        level, ref, technique, text, note = CHECKS[pid]
        checks.append({
            "property_id": pid,
            "quick_cmd": f"timeout 900 ./check {pid} --tier quick",
            "thorough_cmd": f"timeout 5400 ./check {pid} --tier thorough",
            "evidence_file": f"evidence/{pid}.json",
            "replay_cmd_template": f"./check {pid} --replay {{path}}",
            "engine": "vsim",
            "level_claimed": {"category": level, "text": text, "design_ref": ref},
            "level_note": note,
            "technique": technique,
        })
    na = []
    for pid in ids:
        if pid in CHECKS:
            continue
        reason = NA.get(pid) or PENDING.get(pid) or "check under construction in this round (see DESIGN.md §5); not claimed yet"
        na.append({"property_id": pid, "reason": reason})
    manifest = {
        "version": 1,
        "setup_cmd": "./setup.sh",
        "hooks": {
            "guard": "MOKAPOT_VERIF",
            "enable": "no hook in /repo is needed: every seam (module-level Parallel names, chunk-size module globals, Path.glob, pandas/pyarrow/os mutation calls, the estimator API, PYTHONHASHSEED) is owned from outside by /verif/vsim; the guard name is recorded only because the schema asks for one",
            "baseline_off_cmd": "cd /repo && /venv/bin/python -m pytest -ra -q -p no:cacheprovider --timeout=900 --continue-on-collection-errors",
            "source_commits": [],
            "add_only": True,
        },
        "engines": [{
            "name": "vsim",
            "path": "vsim/",
            "serves_properties": sorted(CHECKS),
            "kind_free_text": "deterministic simulation with fault injection: seeded baton-passing thread scheduler replacing joblib.Parallel (line-level pre-emption via sys.settrace), chunk-size buggify knobs, file-system mutation seam with io-error/kill/torn-write faults in forked children, directory-listing permutation, fork-per-scenario pool, reference models as oracles, scenario minimiser and replay files",
        }],
        "checks": checks,
        "not_applicable": na,
        "notes": "fix: commits in /repo are recorded in known_findings.json ('fixed' entries). See DESIGN.md.",
    }
    with open(os.path.join(HERE, "MANIFEST.json"), "w") as fh:
        json.dump(manifest, fh, indent=1)
    print("wrote MANIFEST.json with", len(checks), "checks,", len(na), "not applicable")


if __name__ == "__main__":
    sys.exit(main())
