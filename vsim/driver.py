"""Batch driver shared by all checks: scenario generation, forked execution,
known-finding matching, minimisation, replay files, evidence.

A check module provides

  PROPERTY          "C05"
  LEVEL             "exploration" | "fault_enumeration"
  RULE              text for the evidence file
  ASSUMPTIONS       list[str]
  REAL, STUBS       list[str]
  QUICK_N           scenarios in the quick tier
  scenarios(tier, batch_seed) -> iterator of scenario dicts (may be endless)
  run_scenario(scn, workdir) -> outcome dict
  shrink_candidates(scn) -> iterator of simpler scenario dicts   (optional)

Outcome dict:
  status      "ok" | "violation" | "uninformative"
  clause      oracle clause that failed (violation)
  message     human-readable detail
  signature   dict identifying *which* defect (for known-finding matching)
  digest      distinctness key of the explored case
  nontrivial  bool, by the check's stated rule
  probes      {name: count}   rare-condition counters
  faults      {kind: count}   faults that actually fired
  sched       scheduler stats (steps, switches, ...)
  sample      a compact description of the case (for evidence.samples)
"""

from __future__ import annotations

import copy
import json
import os
import subprocess
import sys
import time
from collections import Counter

from . import pool
from .util import code_fingerprint, derive_seed, digest

VERIF_DIR = os.path.dirname(os.path.dirname(os.path.abspath(__file__)))
EVIDENCE_DIR = os.environ.get("VERIF_EVIDENCE_DIR") or os.path.join(VERIF_DIR, "evidence")
REPLAY_DIR = os.environ.get("VERIF_REPLAY_DIR") or os.path.join(VERIF_DIR, "replays")
KNOWN_FINDINGS = os.path.join(VERIF_DIR, "known_findings.json")

EXIT_OK, EXIT_VIOLATION, EXIT_HARNESS = 0, 1, 3


def load_known_findings():
    try:
        with open(KNOWN_FINDINGS) as fh:
            return json.load(fh)
    except FileNotFoundError:
        return {"findings": [], "fixed": []}


def match_known(prop, outcome, kf):
    for f in kf.get("findings", []):
        if f.get("property") != prop or f.get("status", "open") != "open":
            continue
        m = f.get("match", {})
        if m.get("clause") and m["clause"] != outcome.get("clause"):
            continue
        sig = outcome.get("signature") or {}
        if all(sig.get(k) == v for k, v in (m.get("signature") or {}).items()):
            return f
    return None


def _viol_key(outcome):
    return (outcome.get("clause"), json.dumps(outcome.get("signature") or {}, sort_keys=True))


def _scenario_runner(mod):
    def run(scn, workdir):
        import random

        import numpy as np

        seed = int(scn.get("seed", 0)) & 0x7FFFFFFF
        random.seed(seed)
        np.random.seed(seed)
        from . import world

        world.seed_entropy(seed)
        return mod.run_scenario(scn, workdir)

    return run


def run_one_forked(mod, scn, timeout=180):
    box = {}
    pool.run_forked(
        _scenario_runner(mod),
        [(0, scn)],
        n_procs=1,
        timeout=timeout,
        on_result=lambda k, o: box.setdefault("o", o),
    )
    return box.get("o", {"ok": False, "error": "no result"})


def minimise(mod, scn, outcome, budget_s=60, n_procs=None):
    """Greedy minimisation: accept any simpler scenario that still fails the
    same oracle clause with the same signature."""
    if not hasattr(mod, "shrink_candidates"):
        return scn, outcome, 0
    want = _viol_key(outcome)
    t_end = time.time() + budget_s
    rounds = 0
    cur, cur_out = scn, outcome
    progress = True
    while progress and time.time() < t_end:
        progress = False
        cands = list(mod.shrink_candidates(cur))
        if not cands:
            break
        results = {}

        def on_result(k, o):
            results[k] = o

        pool.run_forked(
            _scenario_runner(mod),
            list(enumerate(cands)),
            n_procs=n_procs,
            timeout=180,
            on_result=on_result,
            deadline=t_end,
        )
        for i in range(len(cands)):
            o = results.get(i)
            if not o or not o.get("ok"):
                continue
            r = o["result"]
            if r.get("status") == "violation" and _viol_key(r) == want:
                cur, cur_out = cands[i], r
                progress = True
                rounds += 1
                break
    return cur, cur_out, rounds


def _get_path(d, path):
    for k in path:
        d = d[k]
    return d


def _set_path(d, path, val):
    for k in path[:-1]:
        d = d[k]
    d[path[-1]] = val


def minimise_schedule(mod, scn, outcome, budget_s=40, n_procs=None):
    """Second minimisation phase for schedule-dependent violations: replace the seeded schedule by the explicit
    switch list of the failing run, then delta-debug that list (drop chunks of switches while the same clause with the
    same signature keeps failing).  Needs mod.SCHED_PATH (where the schedule description lives in the scenario)."""
    path = getattr(mod, "SCHED_PATH", None)
    sched = (outcome or {}).get("schedule")
    if not path or not sched or not sched.get("explicit"):
        return scn, outcome, None
    try:
        cur_desc = _get_path(scn, path)
    except (KeyError, IndexError, TypeError):
        return scn, outcome, None
    if not isinstance(cur_desc, dict) or cur_desc.get("mode") in ("fifo", "explicit", None):
        return scn, outcome, None
    want = _viol_key(outcome)
    t_end = time.time() + budget_s
    runner = _scenario_runner(mod)

    def try_lists(lists):
        cands = []
        for lst in lists:
            c = copy.deepcopy(scn)
            _set_path(c, path, {"mode": "explicit", "explicit": lst, "lookahead": sched.get("lookahead", 2)})
            cands.append(c)
        results = {}
        pool.run_forked(runner, list(enumerate(cands)), n_procs=n_procs, timeout=180,
                        on_result=lambda k, o: results.__setitem__(k, o), deadline=t_end)
        for i in range(len(cands)):
            o = results.get(i)
            if o and o.get("ok") and o["result"].get("status") == "violation" and _viol_key(o["result"]) == want:
                return cands[i], o["result"], lists[i]
        return None

    full = [list(x) for x in sched["explicit"]]
    got = try_lists([full])
    if got is None:
        return scn, outcome, None  # the explicit form does not reproduce it: keep the seeded description
    best_scn, best_out, best = got
    n0 = len(best)
    chunk = max(1, len(best) // 2)
    while chunk >= 1 and time.time() < t_end and best:
        lists = []
        for start in range(0, len(best), chunk):
            lists.append(best[:start] + best[start + chunk:])
        got = try_lists(lists[:32])
        if got is not None:
            best_scn, best_out, best = got
            chunk = max(1, min(chunk, len(best) // 2)) if best else 0
        else:
            if chunk == 1:
                break
            chunk //= 2
    return best_scn, best_out, {"switches_before": n0, "switches_after": len(best)}


def write_replay(prop, scn, outcome, batch_seed, fingerprint, minimised_rounds):
    os.makedirs(REPLAY_DIR, exist_ok=True)
    name = f"{prop}-{digest([scn, outcome.get('clause')])[:12]}.json"
    path = os.path.join(REPLAY_DIR, name)
    doc = {
        "property": prop,
        "violation": {
            "clause": outcome.get("clause"),
            "message": outcome.get("message"),
            "signature": outcome.get("signature"),
        },
        "scenario": scn,
        "schedule": outcome.get("schedule"),
        "fault_plan": scn.get("faults"),
        "digests": outcome.get("digests"),
        "seed": scn.get("seed"),
        "VERIF_SEED": batch_seed,
        "code_fingerprint": fingerprint,
        "minimised_rounds": minimised_rounds,
    }
    with open(path, "w") as fh:
        json.dump(doc, fh, indent=1, sort_keys=True, default=pool._json_default)
    return path


def replay_main(mod, path):
    """./check <id> --replay <file>: exit 1 + VIOLATION line iff it reproduces."""
    with open(path) as fh:
        doc = json.load(fh)
    pool.warm_up()
    scn = doc["scenario"]
    o = run_one_forked(mod, scn)
    if not o.get("ok"):
        print(f"HARNESS-ERROR property={mod.PROPERTY} replay={path} {o}")
        return EXIT_HARNESS
    r = o["result"]
    want = doc["violation"]
    if r.get("status") == "violation" and r.get("clause") == want.get("clause"):
        print(f"clause: {r.get('clause')}")
        print(f"message: {r.get('message')}")
        print(f"VIOLATION property={mod.PROPERTY} replay={path}")
        return EXIT_VIOLATION
    print(f"replay did not reproduce: status={r.get('status')} clause={r.get('clause')}")
    return EXIT_OK


def run_check(mod, tier="quick", batch_seed=0, budget_s=None, n_procs=None, max_n=None):
    prop = mod.PROPERTY
    t0 = time.time()
    print(f"[{prop}] tier={tier} VERIF_SEED={batch_seed}", flush=True)
    pool.warm_up()
    fingerprint = code_fingerprint()
    kf = load_known_findings()
    n_procs = n_procs or int(os.environ.get("VERIF_PROCS", os.cpu_count() or 4))

    if tier == "quick":
        limit = max_n or mod.QUICK_N
        deadline = t0 + float(os.environ.get("VERIF_QUICK_WALL_S", 420))
    else:
        limit = max_n or getattr(mod, "THOROUGH_MAX_N", 10**9)
        budget_s = budget_s or float(os.environ.get("VERIF_BUDGET_S", 600))
        deadline = t0 + budget_s

    def gen():
        for i, scn in enumerate(mod.scenarios(tier, batch_seed)):
            if i >= limit:
                return
            yield i, scn

    outcomes = {}
    scns = {}
    harness = {}
    violations = []

    def gen_record():
        for i, scn in gen():
            scns[i] = scn
            yield i, scn

    def on_result(k, o):
        if o.get("ok"):
            outcomes[k] = o["result"]
            outcomes[k]["wall_s"] = o.get("wall_s")
            if o["result"].get("status") == "violation":
                violations.append(k)
        else:
            harness[k] = o

    timeout = getattr(mod, "SCENARIO_TIMEOUT", 180)
    pool.run_forked(
        _scenario_runner(mod), gen_record(), n_procs=n_procs, timeout=timeout,
        on_result=on_result, deadline=deadline,
    )

    # retry harness failures once, with little parallelism (load-induced timeouts)
    retried = 0
    if harness:
        again = [(k, scns[k]) for k in sorted(harness)]
        retried = len(again)
        first = dict(harness)
        harness.clear()
        pool.run_forked(
            _scenario_runner(mod), again, n_procs=max(1, n_procs // 4), timeout=timeout * 2,
            on_result=on_result,
        )
        for k in harness:
            harness[k]["first_attempt"] = {kk: vv for kk, vv in first[k].items() if kk != "traceback"}

    # ---------------------------------------------------------- violations
    exit_code = EXIT_OK
    reported = []
    known_lines = []
    seen_keys = {}
    for k in sorted(violations):
        o = outcomes[k]
        key = _viol_key(o)
        seen_keys.setdefault(key, []).append(k)
    new_violation_groups = 0
    for key, ks in seen_keys.items():
        k = ks[0]
        o = outcomes[k]
        f = match_known(prop, o, kf)
        if f is not None:
            line = f"KNOWN-FINDING: property={prop} {f.get('id', '')} {f.get('what', '')} (seen in {len(ks)} scenarios, e.g. seed {scns[k].get('seed')})"
            known_lines.append(line)
            print(line, flush=True)
            continue
        new_violation_groups += 1
        if new_violation_groups > 4:
            print(f"(further violation group not minimised: clause={key[0]} sig={key[1]} n={len(ks)})")
            exit_code = EXIT_VIOLATION
            continue
        # prefer the cheapest failing scenario as the starting point
        mbudget = 60 if tier == "quick" else 300
        mbudget = float(os.environ.get("VERIF_MINIMISE_S", mbudget))
        start_scn = o.get("replay_scenario") or scns[k]
        scn_min, out_min, rounds = minimise(mod, start_scn, o, budget_s=mbudget, n_procs=n_procs)
        scn_min, out_min, sched_info = minimise_schedule(mod, scn_min, out_min, budget_s=min(60, mbudget), n_procs=n_procs)
        if sched_info:
            print(f"schedule minimised: {sched_info['switches_before']} -> {sched_info['switches_after']} context switches")
        path = write_replay(prop, scn_min, out_min, batch_seed, fingerprint, rounds)
        # confirm in a fresh interpreter
        cp = subprocess.run(
            [sys.executable, os.path.join(VERIF_DIR, "check"), prop, "--replay", path],
            capture_output=True, text=True, timeout=900,
        )
        if cp.returncode == EXIT_VIOLATION:
            print(f"clause: {out_min.get('clause')}")
            print(f"message: {out_min.get('message')}")
            print(f"signature: {json.dumps(out_min.get('signature'))}")
            print(f"seed: {scn_min.get('seed')}  (seen in {len(ks)} scenarios; minimised in {rounds} rounds)")
            print(f"VIOLATION property={prop} replay={path}", flush=True)
            reported.append({"clause": key[0], "signature": json.loads(key[1]), "replay": path, "n": len(ks)})
            exit_code = EXIT_VIOLATION
        else:
            print(
                f"HARNESS-ERROR property={prop} violation did not reproduce in a fresh process "
                f"(clause={key[0]}) replay={path}\n{cp.stdout[-2000:]}\n{cp.stderr[-2000:]}",
                flush=True,
            )
            if exit_code == EXIT_OK:
                exit_code = EXIT_HARNESS

    n_out = len(outcomes)
    n_uninf = sum(1 for o in outcomes.values() if o.get("status") == "uninformative")
    if exit_code == EXIT_OK and n_out and (n_out - n_uninf) < max(2, 0.1 * n_out):
        print(f"HARNESS-ERROR property={prop} only {n_out - n_uninf} of {n_out} scenarios were informative - the check explored "
              "(almost) nothing and must not report success", flush=True)
        exit_code = EXIT_HARNESS
    if harness and exit_code == EXIT_OK:
        exit_code = EXIT_HARNESS
    for k, h in sorted(harness.items())[:5]:
        kind = "HARNESS-TIMEOUT" if h.get("timeout") else "HARNESS-ERROR"
        print(f"{kind} property={prop} scenario#{k} seed={scns[k].get('seed')} {h.get('error') or h}")
        if h.get("traceback"):
            print(h["traceback"][-3000:])

    # ------------------------------------------------------------- evidence
    wall = time.time() - t0
    evidence = build_evidence(mod, tier, batch_seed, outcomes, scns, harness, reported, known_lines,
                              wall, fingerprint, retried, n_procs)
    os.makedirs(EVIDENCE_DIR, exist_ok=True)
    ev_path = os.path.join(EVIDENCE_DIR, f"{prop}.json")
    with open(ev_path, "w") as fh:
        json.dump(evidence, fh, indent=1, sort_keys=True, default=pool._json_default)
    cov = evidence["coverage"]
    print(
        f"[{prop}] evaluations={cov['evaluations']} distinct_nontrivial={cov['distinct_nontrivial']} "
        f"uninformative={cov.get('uninformative')} violations={evidence['violations']} "
        f"known={len(known_lines)} harness_failures={len(harness)} wall={wall:.1f}s exit={exit_code}",
        flush=True,
    )
    if os.environ.get("VERIF_DEBUG"):
        c = Counter((o.get("message") or "")[:90] for o in outcomes.values() if o.get("status") == "uninformative")
        for m, n_ in c.most_common(8):
            print(f"   uninformative x{n_}: {m}")
    zero = [p for p, v in (cov.get("probe_hits") or {}).items() if v == 0]
    if zero:
        print(f"[{prop}] WARNING probes at zero: {zero}")
    return exit_code


def build_evidence(mod, tier, batch_seed, outcomes, scns, harness, reported, known_lines, wall,
                   fingerprint, retried, n_procs):
    n = len(outcomes)
    status = Counter(o.get("status") for o in outcomes.values())
    digests = set()
    probes = Counter()
    faults = Counter()
    steps = switches = 0
    sched_digests = set()
    debris = set()
    knob_hist = {}
    for p in getattr(mod, "PROBES", []):
        probes[p] = 0
    n_eval = 0
    for k, o in outcomes.items():
        n_eval += int(o.get("evaluations", 1))
        if o.get("nontrivial") and o.get("status") != "uninformative":
            if o.get("distinct_digests"):
                digests.update(o["distinct_digests"])
            else:
                digests.add(o.get("digest") or f"#{k}")
        allowed = set(getattr(mod, "PROBES", []) or [])
        for p, v in (o.get("probes") or {}).items():
            if not allowed or p in allowed:
                probes[p] += int(v)
        for p, v in (o.get("faults") or {}).items():
            faults[p] += int(v)
        s = o.get("sched") or {}
        steps += int(s.get("steps", 0))
        switches += int(s.get("switches", 0))
        for d in o.get("sched_digests") or []:
            sched_digests.add(d)
        for d in o.get("debris_states") or []:
            debris.add(d)
        for kn, v in (o.get("knobs") or {}).items():
            b = knob_hist.setdefault(kn, Counter())
            b[_bucket(v)] += 1
    samples = []
    for k in sorted(outcomes)[:200]:
        o = outcomes[k]
        if o.get("sample") is not None and o.get("status") == "ok" and o.get("nontrivial"):
            samples.append({"scenario": o["sample"], "outcome": o.get("status"), "seed": scns[k].get("seed")})
        if len(samples) >= 3:
            break
    if not samples:
        for k in sorted(outcomes)[:3]:
            samples.append({"scenario": outcomes[k].get("sample", scns[k]), "outcome": outcomes[k].get("status"),
                            "seed": scns[k].get("seed")})
    informative = n - status.get("uninformative", 0)
    cov = {
        "evaluations": n_eval,
        "scenarios": n,
        "distinct_nontrivial": len(digests),
        "rule": mod.RULE,
        "samples": samples,
        "exhaustive": bool(getattr(mod, "EXHAUSTIVE", False)),
        "exhaustive_subspaces": getattr(mod, "EXHAUSTIVE_SUBSPACES", []),
        "uninformative": status.get("uninformative", 0),
        "informative_ratio": round(informative / n, 4) if n else 0.0,
        "runs_per_hour": round(n_eval / wall * 3600) if wall > 0 else 0,
        "procs": n_procs,
        "seeds": {"VERIF_SEED": batch_seed, "first": scns[min(scns)].get("seed") if scns else None,
                  "count": len(scns)},
        "sim_steps_total": steps,
        "context_switches_total": switches,
        "distinct_schedules": len(sched_digests),
        "distinct_debris_states": len(debris),
        "fault_counts": dict(faults),
        "knob_histogram": {k: dict(v) for k, v in knob_hist.items()},
        "probe_hits": dict(probes),
        "harness_retries": retried,
        "harness_failures": len(harness),
        "known_findings_seen": known_lines,
        "violations_reported": reported,
        "real_components": getattr(mod, "REAL", []),
        "stub_components": getattr(mod, "STUBS", []),
        "code_fingerprint": fingerprint,
        "simulated_time_note": "no clock in mokapot influences results; simulated time = scheduler steps (yield points)",
    }
    return {
        "property_id": mod.PROPERTY,
        "tier": tier,
        "seed": int(batch_seed),
        "level": mod.LEVEL,
        "coverage": cov,
        "assumptions": list(getattr(mod, "ASSUMPTIONS", [])),
        "wall_s": round(wall, 2),
        "violations": len(reported),
    }


def _bucket(v):
    try:
        v = int(v)
    except (TypeError, ValueError):
        return str(v)
    if v >= 10**8:
        return "inf"
    if v <= 3:
        return str(v)
    if v <= 10:
        return "4-10"
    if v <= 50:
        return "11-50"
    if v <= 200:
        return "51-200"
    return ">200"


def seeds_for(prop, batch_seed):
    i = 0
    while True:
        yield i, derive_seed(prop, batch_seed, i)
        i += 1


def clone(scn):
    return copy.deepcopy(scn)
