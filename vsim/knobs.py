"""Chunk-size knobs (seam S4).

mokapot reads six sizes from ``mokapot.constants`` and copies them *by value*
into the importing modules (``from .constants import X``).  Setting a knob
therefore means setting the attribute on every loaded ``mokapot.*`` module
that has a global of that name - and checking that it took (an early prototype
set the knob on the re-exported *function* ``mokapot.brew`` and silently tested
nothing).
"""

from __future__ import annotations

import sys
import types

KNOBS = (
    "CONFIDENCE_CHUNK_SIZE",
    "CHUNK_SIZE_READ_ALL_DATA",
    "CHUNK_SIZE_ROWS_PREDICTION",
    "CHUNK_SIZE_COLUMNS_FOR_DROP_COLUMNS",
    "CHUNK_SIZE_ROWS_FOR_DROP_COLUMNS",
    "MERGE_SORT_CHUNK_SIZE",
    # a literal in brew.make_train_sets on the pinned tree (5,000,000 rows per block, so the block loop never runs on
    # any file a test or a simulation can afford); exposed by the guarded hook in /repo (MOKAPOT_VERIF=1)
    "TRAIN_SETS_BLOCK_SIZE",
)

# where each knob is known to be consumed on the pinned tree; used only to
# assert that the seam still exists (a knob that reaches no consumer would make
# every run "pass").
EXPECTED_CONSUMERS = {
    "CONFIDENCE_CHUNK_SIZE": ["mokapot.confidence"],
    "CHUNK_SIZE_READ_ALL_DATA": ["mokapot.brew"],
    "CHUNK_SIZE_ROWS_PREDICTION": ["mokapot.brew"],
    "CHUNK_SIZE_COLUMNS_FOR_DROP_COLUMNS": ["mokapot.parsers.pin"],
    "CHUNK_SIZE_ROWS_FOR_DROP_COLUMNS": ["mokapot.parsers.pin"],
    "MERGE_SORT_CHUNK_SIZE": ["mokapot.utils"],
    "TRAIN_SETS_BLOCK_SIZE": ["mokapot.brew"],
}

BIG = 10**9


def _mokapot_modules():
    out = []
    for name, mod in list(sys.modules.items()):
        if (
            (name == "mokapot" or name.startswith("mokapot."))
            and isinstance(mod, types.ModuleType)
        ):
            out.append((name, mod))
    return out


def defaults():
    import mokapot.constants as c  # noqa: F401

    mod = sys.modules["mokapot.constants"]
    out = {k: getattr(mod, k) for k in KNOBS}
    if out["TRAIN_SETS_BLOCK_SIZE"] is None:
        raise RuntimeError("hook guard off: start mokapot with MOKAPOT_VERIF=1 (./check does)")
    return out


_ORIG = None


def set_knobs(values):
    """Set knob values everywhere; returns the number of module globals set."""
    global _ORIG
    import mokapot  # noqa: F401
    import mokapot.brew_rollup  # noqa: F401  (so that late importers exist)

    if _ORIG is None:
        _ORIG = defaults()
    n = 0
    for knob, val in values.items():
        if knob not in KNOBS:
            raise KeyError(knob)
        hit = []
        for name, mod in _mokapot_modules():
            if knob in mod.__dict__:
                mod.__dict__[knob] = int(val)
                hit.append(name)
                n += 1
        for must in EXPECTED_CONSUMERS[knob]:
            m = sys.modules.get(must)
            if m is None or m.__dict__.get(knob) != int(val):
                raise RuntimeError(
                    f"knob seam lost: {knob} not settable on {must} (hit {hit})"
                )
    return n


def reset_knobs():
    if _ORIG is not None:
        set_knobs(_ORIG)


class knobs:
    def __init__(self, values):
        self.values = values

    def __enter__(self):
        set_knobs(self.values)
        return self

    def __exit__(self, *exc):
        reset_knobs()
        return False
