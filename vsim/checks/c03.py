"""C03 - competition and rollup keep exactly the best PSM per spectrum / entity.

World B: assign_confidence (and, in a second workload, brew_rollup.main) on
generated tables with a supplied score vector, spill tasks under the seeded
scheduler, seeded confidence / merge chunk sizes, permuted spill-file listing.
Oracle: in-memory competition model + reference TDC formula."""

from __future__ import annotations

import os
import random
from pathlib import Path

import numpy as np

from .. import datagen, refmodel, world
from ..driver import clone, seeds_for
from ..util import digest, exc_is_domain
from ..worlds import confidence as W
from ..worlds import pipeline as P

PROPERTY = "C03"
SCHED_PATH = ("sched",)
LEVEL = "exploration"
QUICK_N = 400
SCENARIO_TIMEOUT = 180
PROBES = ["tie_mode", "score_exactly_zero", "quantised_scores", "best_ranked_rows_are_decoys", "another_collection_analysed_before_in_process", "dedup_off", "rollup_off", "decoys_off", "multi_collection", "no_prefix_multi", "empty_string_prefix", "lower_is_better_scores", "failed_attempt_with_same_arguments_first", "checksum_colliding_peptides", "rollup_input_without_decoy_files",
          "level_cols", "parquet", "spill_files>=2", "group_cut_by_chunk", "merge_chunk_small", "workers>1",
          "switches>0", "listing_permuted", "rollup_tool", "rollup_tool_multi_root", "degenerate_level",
          "conf_chunk_1", "level_batch_flush", "sibling_level_of_equal_cardinality"]
RULE = (
    "Seeded tables with controlled multiplicities (1-4 PSMs per spectrum, peptides shared between spectra, optional "
    "ModifiedPeptide/Precursor/PeptideGroup columns, 1-3 collections with or without prefixes) and a supplied score "
    "vector (strict: all distinct; tie mode: exact ties planted inside spectra/peptides, decoy output on) go through "
    "assign_confidence with deduplication/rollup/decoy switches, text or Parquet, seeded CONFIDENCE_CHUNK_SIZE / "
    "MERGE_SORT_CHUNK_SIZE (1..n+1), 1-8 workers under a seeded schedule and a permuted spill-file listing; a second "
    "workload feeds such result files of 1-3 file roots to brew_rollup.main. Oracle: dictionary competition model + "
    "reference TDC. distinct = distinct (tables, scores, switches, knobs, format, schedule digest); non-trivial = "
    ">= 2 spill files, or some group with >= 2 members, or the rollup tool."
)
ASSUMPTIONS = [
    ">= 5 targets and >= 5 decoys retained at every level (smaller levels crash triqler's PEP spline, a C06 matter); "
    "runs that fail on a level below that bound are counted as uninformative (probe degenerate_level)",
    "scores finite with <= 6 fractional digits (exact text round trip); compared at rtol 1e-9; q-values at rtol 1e-5",
    "tie mode accepts any arg-max winner; higher levels are then chained on the observed retained PSM set",
    "desc=True only (direction handling is decided in C07)",
]
REAL = ["mokapot.assign_confidence", "mokapot.brew_rollup", "mokapot.utils.merge_sort", "mokapot.streaming",
        "mokapot.tabular_data", "mokapot.confidence_writer", "mokapot.read_pin (1 worker)", "pandas", "pyarrow", "triqler",
        "file system (/dev/shm)"]
STUBS = ["joblib.Parallel -> vsim.sched.SimParallel", "Path.glob -> seeded permutation"]


def make_scenario(seed):
    rng = random.Random(seed)
    rollup_tool = rng.random() < 0.15
    n_coll = rng.choice([1, 1, 1, 2, 3])
    tabs = [W.gen_conf_table_params(rng, file_id=i, small=(n_coll > 1)) for i in range(n_coll)]
    # all collections of one run share the column layout
    for t in tabs[1:]:
        for k in ("spec_extra", "label_enc", "level_cols", "n_features", "calcmass"):
            t[k] = tabs[0][k]
    tie = rng.random() < 0.3
    score_mode = rng.choice(["plain", "plain", "zero_anchor", "zero_anchor", "quantised"])
    if score_mode == "quantised":
        tie = True
    conf = {
        "decoys": True if tie else rng.random() < 0.7,
        "dedup": rng.random() < 0.75,
        "rollup": rng.random() < 0.85,
        "eval_fdr": 0.1037,
    }
    if n_coll > 1:
        r = rng.random()
        if r < 0.55:
            conf["prefixes"] = [f"c{i}" for i in range(n_coll)]
        elif r < 0.7:
            conf["prefixes"] = None
        elif r < 0.85:
            conf["prefixes"] = [""] * n_coll  # what the command line passes for several files analysed jointly
        else:
            conf["prefixes"] = [rng.choice(["", None, f"c{i}"]) for i in range(n_coll)]
    elif rng.random() < 0.2:
        conf["prefixes"] = [""]
    n_guess = len(W.build_conf_table(tabs[rng.randrange(len(tabs))])["rows"])  # exact row count of one collection
    kn = {}
    if rng.random() < 0.85:
        kn["CONFIDENCE_CHUNK_SIZE"] = datagen.knob_value(rng, n_guess)
    if rng.random() < 0.7:
        kn["MERGE_SORT_CHUNK_SIZE"] = datagen.knob_value(rng, max(2, n_guess // 3))
    workers = rng.choice([1, 2, 3, 4, 8])
    fmt = rng.choice(["pin", "pin", "parquet"])
    scn = {
        "property": PROPERTY,
        "seed": seed,
        "tables": tabs,
        "score_seed": rng.getrandbits(32),
        "score_mode": score_mode,
        "top_decoys": rng.choice([0, 0, 0, 1, 3]),
        "tie_mode": tie,
        "conf": conf,
        "format": fmt,
        "row_group": rng.choice([None, 5, 40]) if fmt == "parquet" else None,
        "knobs": kn,
        "max_workers": workers,
        "sched": world.gen_sched(rng, workers, est_steps=800),
        "glob_seed": rng.getrandbits(16),
        "rollup_tool": None,
        # another collection was analysed earlier in the same process (module-level state must not leak)
        "prior": {"table": W.gen_conf_table_params(rng, file_id=7, small=True), "score_seed": rng.getrandbits(32)}
        if rng.random() < 0.2 else None,
    }
    if rng.random() < 0.3:
        for t in scn["tables"]:
            t["hash_twins"] = rng.choice([1, 2, 4])  # distinct peptides whose 32-bit checksums collide
    r_sib = random.Random(f"sibling|{seed}")
    if r_sib.random() < 0.2:
        # the only extra level is a sibling of the peptide level: as many groups as peptides, a few memberships swapped, so
        # that two consecutive levels keep the same NUMBER of rows but not the same rows
        for t in scn["tables"]:
            t["level_cols"] = ["PeptideGroup"]
            t["sibling_groups"] = True
    if not rollup_tool:
        scn["lower_is_better"] = rng.random() < 0.25
        scn["failed_attempt_first"] = rng.random() < 0.25
    if rollup_tool:
        scn["tie_mode"] = False
        if scn["score_mode"] == "quantised":
            scn["score_mode"] = "zero_anchor"
        scn["conf"].update(decoys=True, dedup=True, rollup=rng.random() < 0.5)
        scn["conf"]["prefixes"] = None
        scn["format"] = "pin"
        scn["row_group"] = None
        scn["rollup_tool"] = {"roots": [chr(97 + i) for i in range(n_coll)], "level": "psm",
                              "drop_decoys_of": rng.randrange(3) if rng.random() < 0.4 else None}
    return scn


def scenarios(tier, batch_seed):
    for _i, s in seeds_for(PROPERTY, batch_seed):
        yield make_scenario(s)


# ---------------------------------------------------------------------- oracle
def _parse_level_files(files, prefix, level, want_decoys):
    """Returns (rows as dicts with 'target'), or raises KeyError for a missing file."""
    out = []
    for kind, is_t in (("targets", True), ("decoys", False)):
        if not is_t and not want_decoys:
            continue
        name = f"{prefix}{kind}.{level}"
        if name not in files:
            raise KeyError(name)
        header, rows = P.parse_result_file(files[name])
        for need in ("PSMId",):
            if need not in header:
                raise ValueError(f"{name}: no column {need!r} in the header line {header[:5]}")
        for i, r in enumerate(rows):
            if len(r) != len(header):
                raise ValueError(f"{name} row {i}: {len(r)} fields for {len(header)} header columns")
            d = dict(zip(header, r))
            d["target"] = is_t
            d["_file"] = name
            d["_pos"] = i
            out.append(d)
    return out


def check_collection(records, observed_by_level, conf, level_cols, tie_mode, coll_name):
    """Returns None or (clause, message, signature)."""
    by_id = {r["PSMId"]: r for r in records}
    want_decoys = conf["decoys"]
    strict = refmodel.strict_competition(records, conf["dedup"], conf["rollup"], level_cols)
    keyname = dict(refmodel.level_names(level_cols))
    retained_obs = None
    for level in strict:
        obs = observed_by_level[level]
        exp = strict[level]
        sig = {"level": "psms" if level == "psms" else "rollup"}
        # (a) every output row is one input row, unmodified
        for o in obs:
            src = by_id.get(o["PSMId"])
            if src is None:
                return ("unknown_row", f"{o['_file']} row {o['_pos']}: PSMId {o['PSMId']!r} is not an input PSM of "
                        f"{coll_name}", sig)
            if o["peptide"] != src["peptide"] or o["proteinIds"] != src["proteinIds"]:
                return ("row_mixed", f"{o['_file']} row {o['_pos']}: PSMId {o['PSMId']} carries peptide/proteins "
                        f"{o['peptide']!r}/{o['proteinIds']!r}, input row has {src['peptide']!r}/{src['proteinIds']!r}", sig)
            for lc in level_cols:
                if lc in o and o[lc] != str(src[lc]):
                    return ("row_mixed", f"{o['_file']} row {o['_pos']}: level column {lc} = {o.get(lc)!r}, input row has "
                            f"{src[lc]!r}", sig)
            if not np.isclose(float(o["score"]), src["score"], rtol=1e-9, atol=1e-12):
                return ("row_mixed", f"{o['_file']} row {o['_pos']}: score {o['score']} but input score of that PSM is "
                        f"{src['score']!r}", sig)
            if o["target"] != src["target"]:
                return ("wrong_output_file", f"{o['PSMId']} is a {'target' if src['target'] else 'decoy'} but was written to "
                        f"{o['_file']}", sig)
        # (b)+(c) one row per entity, an arg-max
        if level == "psms":
            cands = records
            keyf = (lambda r: r["spectrum"]) if conf["dedup"] else (lambda r: r["PSMId"])
        else:
            k = keyname[level]
            keyf = lambda r, k=k: r[k]  # noqa: E731
            if tie_mode:
                cands = [by_id[o["PSMId"]] for o in retained_obs]
            else:
                cands = strict["psms"]
        best = {}
        for r in cands:
            kk = keyf(r)
            if kk not in best or r["score"] > best[kk]:
                best[kk] = r["score"]
        cand_ids = {r["PSMId"] for r in cands}
        seen = {}
        for o in obs:
            src = by_id[o["PSMId"]]
            if src["PSMId"] not in cand_ids:
                return ("winner_not_retained", f"{o['_file']}: {o['PSMId']} appears at level {level} but was not retained at "
                        "PSM level", sig)
            kk = keyf(src)
            if kk in seen:
                return ("duplicate_entity", f"level {level} of {coll_name}: entity {kk!r} appears twice ({seen[kk]} and "
                        f"{o['PSMId']})", sig)
            seen[kk] = o["PSMId"]
            if src["score"] != best[kk]:
                return ("not_best", f"level {level} of {coll_name}: entity {kk!r} is represented by {o['PSMId']} (score "
                        f"{src['score']!r}) but its best retained PSM scores {best[kk]!r}", sig)
        if want_decoys:
            missing = set(best) - set(seen)
            if missing:
                return ("missing_entity", f"level {level} of {coll_name}: {len(missing)} of {len(best)} entities have no row, "
                        f"e.g. {sorted(map(str, missing))[:3]}", sig)
        else:
            exp_t = [r for r in exp if r["target"]]
            got_ids = [o["PSMId"] for o in obs]
            if sorted(got_ids) != sorted(r["PSMId"] for r in exp_t):
                miss = sorted({r["PSMId"] for r in exp_t} - set(got_ids))
                extra = sorted(set(got_ids) - {r["PSMId"] for r in exp_t})
                return ("missing_entity" if miss else "extra_row", f"level {level} of {coll_name} (targets only): missing "
                        f"{miss[:4]}, unexpected {extra[:4]}", sig)
        # (d) order: non-increasing within each file
        for kind in ("targets", "decoys"):
            rows = [o for o in obs if o["_file"].split(".")[-2] == kind]
            sc = [float(o["score"]) for o in rows]
            for i in range(1, len(sc)):
                if sc[i] > sc[i - 1]:
                    return ("order", f"{rows[i]['_file']}: score increases at row {rows[i]['_pos']} ({sc[i - 1]} -> {sc[i]})", sig)
        # (e) q-values = formula on exactly the retained rows of this level
        if want_decoys:
            sc = np.array([by_id[o["PSMId"]]["score"] for o in obs])
            tg = np.array([o["target"] for o in obs])
            q = refmodel.tdc_ref(sc, tg, desc=True)
            for o, qq in zip(obs, q):
                if not np.isclose(float(o["q-value"]), qq, rtol=1e-5, atol=1e-9):
                    return ("qvalue", f"{o['_file']} row {o['_pos']} ({o['PSMId']}): q-value {o['q-value']} but the formula on "
                            f"the {len(obs)} retained rows gives {qq:.8g}", sig)
        else:
            sc = np.array([r["score"] for r in exp])
            tg = np.array([r["target"] for r in exp])
            q = refmodel.tdc_ref(sc, tg, desc=True)
            qmap = {r["PSMId"]: qq for r, qq in zip(exp, q)}
            for o in obs:
                if not np.isclose(float(o["q-value"]), qmap[o["PSMId"]], rtol=1e-5, atol=1e-9):
                    return ("qvalue", f"{o['_file']} row {o['_pos']} ({o['PSMId']}): q-value {o['q-value']} but the formula on "
                            f"the retained rows (targets and decoys) gives {qmap[o['PSMId']]:.8g}", sig)
        for o in obs:
            try:
                pep = float(o["posterior_error_prob"])
            except ValueError:
                pep = float("nan")
            if not (0.0 <= pep <= 1.0):
                return ("pep_range", f"{o['_file']} row {o['_pos']}: PEP {o['posterior_error_prob']!r} outside [0,1]", sig)
        if level == "psms":
            retained_obs = obs
    return None


def _degenerate(records, conf, level_cols):
    strict = refmodel.strict_competition(records, conf["dedup"], conf["rollup"], level_cols)
    for lvl, rows in strict.items():
        t = sum(1 for r in rows if r["target"])
        d = len(rows) - t
        if t < 5 or d < 5:
            return f"level {lvl}: {t} targets / {d} decoys retained"
    return None


def _flip_score_column(raw):
    lines = raw.decode().split("\n")
    if not lines or "score" not in lines[0].split("\t"):
        return raw
    j = lines[0].split("\t").index("score")
    out = [lines[0]]
    for ln in lines[1:]:
        f = ln.split("\t")
        if len(f) > j and f[j]:
            f[j] = f[j][1:] if f[j].startswith("-") else "-" + f[j]
        out.append("\t".join(f))
    return "\n".join(out).encode()


def run_scenario(scn, workdir):
    tables = [W.build_conf_table(p) for p in scn["tables"]]
    scores = [W.gen_scores(t, f"{scn['score_seed']}|{i}", tie_mode=scn["tie_mode"], mode=scn.get("score_mode", "plain"),
                           top_decoys=scn.get("top_decoys", 0))
              for i, t in enumerate(tables)]
    conf = scn["conf"]
    level_cols = tables[0]["meta"]["level_cols"]
    kn = scn.get("knobs") or {}
    if scn.get("rollup_tool"):
        return _run_rollup_tool(scn, tables, scores, workdir)
    if scn.get("prior"):
        pt = dict(scn["prior"]["table"])
        for k in ("spec_extra", "label_enc", "level_cols"):
            pt[k] = scn["tables"][0][k]
        ptab = W.build_conf_table(pt)
        W.run_assign_confidence([ptab], [W.gen_scores(ptab, scn["prior"]["score_seed"])], dict(conf, prefixes=None), workdir,
                                "prior", fmt=scn["format"], row_group=scn.get("row_group"), max_workers=1)
    lower = bool(scn.get("lower_is_better"))
    res = W.run_assign_confidence(tables, [[-v for v in s] for s in scores] if lower else scores, conf, workdir, "run",
                                  fmt=scn["format"], row_group=scn.get("row_group"),
                                  sched_desc=scn.get("sched"), knobs=kn, glob_seed=scn.get("glob_seed"),
                                  max_workers=scn["max_workers"], descs=[False] * len(tables) if lower else None,
                                  fail_first=bool(scn.get("failed_attempt_first")))
    if lower:
        # the caller supplied lower-is-better values (-s): results must be those of s, written with the supplied sign
        res.files = {k: _flip_score_column(v) for k, v in res.files.items()}
    sch = res.sched
    sstats = sch.stats()
    n_rows = [len(t["rows"]) for t in tables]
    ccs = kn.get("CONFIDENCE_CHUNK_SIZE", 10**9)
    recs = [refmodel.table_records(t, s) for t, s in zip(tables, scores)]
    # is some group cut by a confidence chunk boundary?
    cut = 0
    multi_groups = 0
    for rs in recs:
        ch = {}
        for r in rs:
            ch.setdefault(r["spectrum"], set()).add(r["row"] // ccs)
        cut += sum(1 for v in ch.values() if len(v) > 1)
        cnt = {}
        for r in rs:
            cnt[r["spectrum"]] = cnt.get(r["spectrum"], 0) + 1
        multi_groups += sum(1 for v in cnt.values() if v > 1)
    probes = {
        "tie_mode": int(scn["tie_mode"]),
        "score_exactly_zero": int(any(v == 0.0 for sc in scores for v in sc)),
        "quantised_scores": int(scn.get("score_mode") == "quantised"),
        "best_ranked_rows_are_decoys": int(bool(scn.get("top_decoys"))),
        "another_collection_analysed_before_in_process": int(bool(scn.get("prior"))),
        "dedup_off": int(not conf["dedup"]),
        "rollup_off": int(not conf["rollup"]),
        "decoys_off": int(not conf["decoys"]),
        "multi_collection": int(len(tables) > 1),
        "no_prefix_multi": int(len(tables) > 1 and sum(1 for pf in (conf.get("prefixes") or [None] * len(tables)) if not pf) > 1),
        "empty_string_prefix": int(any(pf == "" for pf in (conf.get("prefixes") or []))),
        "lower_is_better_scores": int(lower),
        "checksum_colliding_peptides": int(any(t.get("hash_twins") for t in scn["tables"])),
        "sibling_level_of_equal_cardinality": int(any(t.get("sibling_groups") for t in scn["tables"])),
        "failed_attempt_with_same_arguments_first": int(bool(res.first_attempt and res.first_attempt.startswith("failed"))),
        "level_cols": int(bool(level_cols)),
        "parquet": int(scn["format"] == "parquet"),
        "spill_files>=2": int(ccs < max(n_rows)),
        "group_cut_by_chunk": int(cut > 0),
        "merge_chunk_small": int(kn.get("MERGE_SORT_CHUNK_SIZE", 10**9) < 5),
        "workers>1": int(scn["max_workers"] > 1),
        "switches>0": int(sstats["switches"] > 2 * sstats["parallel_calls"]),
        "listing_permuted": int(res.fs.glob_multi > 0),
        "conf_chunk_1": int(ccs == 1),
        "level_batch_flush": int(ccs < max(n_rows) // 2),
    }
    out = {
        "status": "ok",
        "digest": digest([scn["tables"], scn["score_seed"], scn.get("score_mode"), scn.get("top_decoys"), scn["tie_mode"], conf, scn["format"], scn.get("row_group"), kn,
                          scn["max_workers"], world.sched_digest(sch), scn.get("glob_seed"), scn.get("lower_is_better"),
                          scn.get("failed_attempt_first")]),
        "nontrivial": bool(probes["spill_files>=2"] or multi_groups > 0),
        "probes": probes,
        "sched": sstats,
        "sched_digests": [world.sched_digest(sch)],
        "knobs": kn,
        "schedule": world.explicit_schedule(sch),
        "sample": {k: scn.get(k) for k in ("tables", "score_seed", "score_mode", "tie_mode", "conf", "format", "row_group", "knobs",
                                       "max_workers", "sched", "glob_seed")},
    }

    def viol(clause, msg, **sig):
        out.update(status="violation", clause=clause, message=msg, signature=sig)
        return out

    degenerate = None
    for rs in recs:
        degenerate = degenerate or _degenerate(rs, conf, level_cols)
    if degenerate:
        probes["degenerate_level"] = 1
        out.update(status="uninformative", message=f"degenerate level ({degenerate}); PEP estimation domain")
        return out
    if res.exc is not None:
        if exc_is_domain(res.exc) and "peps" in (res.err_sig() or {}).get("site", ""):
            probes["degenerate_level"] = 1
            out.update(status="uninformative", message=f"PEP estimation failed on this score distribution: {res.error}"[:200])
            return out
        return viol("run_failed", f"assign_confidence failed on a well-formed input: {res.error}", **res.err_sig())

    prefixes = conf.get("prefixes") or [None] * len(tables)
    levels = ["psms"] + ([ln for ln, _ in refmodel.level_names(level_cols)] if conf["rollup"] else [])
    # expected file set
    exp_files = set()
    for pf in prefixes:
        p = f"{pf}." if pf else ""
        for lv in levels:
            exp_files.add(f"{p}targets.{lv}")
            if conf["decoys"]:
                exp_files.add(f"{p}decoys.{lv}")
    got_files = set(res.files)
    if got_files != exp_files:
        extra = sorted(got_files - exp_files)
        miss = sorted(exp_files - got_files)
        return viol("file_set", f"result files: unexpected {extra[:6]}, missing {miss[:6]}",
                    kind="leftover" if extra and not miss else "missing")
    for ci, rs in enumerate(recs):
        pf = prefixes[ci]
        p = f"{pf}." if pf else ""
        observed = {}
        try:
            for lv in levels:
                rows = _parse_level_files(res.files, p, lv, conf["decoys"])
                if not pf and len(tables) > 1:
                    ids = {r["PSMId"] for r in rs}
                    rows = [o for o in rows if o["PSMId"] in ids]
                observed[lv] = rows
        except (KeyError, ValueError) as exc:
            return viol("file_format", f"{exc}")
        bad = check_collection(rs, observed, conf, level_cols, scn["tie_mode"], f"collection {ci}")
        if bad:
            clause, msg, sig = bad
            return viol(clause, msg, **sig)
    if len(tables) > 1 and any(not pf for pf in prefixes):
        # no foreign rows in the shared files
        all_ids = {r["PSMId"] for rs in recs for r in rs}
        for lv in levels:
            for o in _parse_level_files(res.files, "", lv, conf["decoys"]):
                if o["PSMId"] not in all_ids:
                    return viol("unknown_row", f"{o['_file']}: PSMId {o['PSMId']} belongs to no input collection")
    return out


# ------------------------------------------------------------------ rollup tool
def _run_rollup_tool(scn, tables, scores, workdir):
    conf = dict(scn["conf"])
    kn = scn.get("knobs") or {}
    src = Path(workdir) / "src"
    os.makedirs(src, exist_ok=True)
    level_cols = tables[0]["meta"]["level_cols"]
    roots = scn["rollup_tool"]["roots"]
    # step 1: produce the input result files with the real assign_confidence (unperturbed, 1 worker)
    for root, t, s in zip(roots, tables, scores):
        c = dict(conf)
        c["file_root"] = f"{root}."
        c["prefixes"] = None
        r0 = W.run_assign_confidence([t], [s], c, workdir, f"mk_{root}", dest=src)
        if r0.exc is not None:
            return {"status": "uninformative", "message": f"input production failed: {r0.error}", "digest": digest(scn),
                    "nontrivial": False, "probes": {"rollup_tool": 1}}
    no_decoys = None
    if scn["rollup_tool"].get("drop_decoys_of") is not None and len(roots) > 1:
        # one of the earlier analyses was run without decoy output: fewer decoy files than target files
        no_decoys = roots[scn["rollup_tool"]["drop_decoys_of"] % len(roots)]
        for f in os.listdir(src):
            if f.startswith(f"{no_decoys}.decoys."):
                os.unlink(src / f)
    inputs = {}
    for f in sorted(os.listdir(src)):
        with open(src / f, "rb") as fh:
            inputs[f] = fh.read()
    dest = Path(workdir) / "dest"
    res = W.run_rollup(src, dest, level="psm", sched_desc=scn.get("sched"), knobs=kn, glob_seed=scn.get("glob_seed"))
    probes = {"rollup_tool": 1, "rollup_tool_multi_root": int(len(roots) > 1), "level_cols": int(bool(level_cols)),
              "rollup_input_without_decoy_files": int(no_decoys is not None),
              "listing_permuted": int(res.fs.glob_multi > 0)}
    out = {
        "status": "ok",
        "digest": digest([scn["tables"], scn["score_seed"], conf, kn, scn.get("glob_seed"), "rollup"]),
        "nontrivial": True,
        "probes": probes,
        "sched": res.sched.stats(),
        "knobs": kn,
        "sample": {k: scn[k] for k in ("tables", "score_seed", "conf", "knobs", "rollup_tool", "glob_seed")},
    }

    def viol(clause, msg, **sig):
        sig["tool"] = "brew_rollup"
        out.update(status="violation", clause=clause, message=msg, signature=sig)
        return out

    # union of the PSM-level inputs
    union = []
    for root in roots:
        for o in _parse_level_files(inputs, f"{root}.", "psms", root != no_decoys):
            union.append(o)
    ids = [o["PSMId"] for o in union]
    if len(set(ids)) != len(ids):
        return {"status": "uninformative", "message": "duplicate ids in inputs", "digest": digest(scn), "nontrivial": False,
                "probes": probes}
    sc_all = [float(o["score"]) for o in union]
    if len(set(sc_all)) != len(sc_all):
        out.update(status="uninformative", message="score tie across roots")
        return out
    # expected levels of the tool: columns present among (precursor, modified_peptide, peptide, peptide_group)
    colmap = {"peptide": "peptide", "Precursor": "precursor", "ModifiedPeptide": "modified_peptide", "PeptideGroup": "peptide_group"}
    lv_cols = [("peptide", "peptides")]
    for lc in level_cols:
        if union and lc in union[0]:  # level columns reach the PSM-level files only when rollup was on
            lv_cols.append((lc, colmap[lc] + "s"))
    for col, lvname in lv_cols:
        best = {}
        for o in union:
            k = o[col]
            if k not in best or float(o["score"]) > float(best[k]["score"]):
                best[k] = o
        exp = sorted(best.values(), key=lambda o: -float(o["score"]))
        t = sum(1 for o in exp if o["target"])
        if t < 5 or len(exp) - t < 5:
            probes["degenerate_level"] = 1
            out.update(status="uninformative", message=f"degenerate rollup level {lvname}")
            return out
    if res.exc is not None:
        if exc_is_domain(res.exc) and "peps" in (res.err_sig() or {}).get("site", ""):
            out.update(status="uninformative", message=f"PEP estimation failed on this score distribution: {res.error}"[:200])
            return out
        return viol("run_failed", f"brew_rollup failed: {res.error}", **res.err_sig())
    for col, lvname in lv_cols:
        best = {}
        for o in union:
            k = o[col]
            if k not in best or float(o["score"]) > float(best[k]["score"]):
                best[k] = o
        exp = sorted(best.values(), key=lambda o: -float(o["score"]))
        q = refmodel.tdc_ref(np.array([float(o["score"]) for o in exp]), np.array([o["target"] for o in exp]))
        qmap = {o["PSMId"]: qq for o, qq in zip(exp, q)}
        for kind, is_t in (("targets", True), ("decoys", False)):
            name = f"rollup.{kind}.{lvname}"
            if name not in res.files:
                return viol("file_set", f"missing output {name}; have {sorted(res.files)}", level=lvname)
            header, rows = P.parse_result_file(res.files[name])
            e = [o for o in exp if o["target"] == is_t]
            try:
                idc = header.index("psm_id")
            except ValueError:
                return viol("file_format", f"{name}: no psm_id column in {header}")
            got_ids = [r[idc] for r in rows]
            if got_ids != [o["PSMId"] for o in e]:
                miss = [o["PSMId"] for o in e if o["PSMId"] not in got_ids][:4]
                extra = [g for g in got_ids if g not in {o["PSMId"] for o in e}][:4]
                same_set = sorted(got_ids) == sorted(o["PSMId"] for o in e)
                return viol("rollup_rows", f"{name}: rows differ from the best-per-{col} rule over the union of inputs: "
                            f"missing {miss}, unexpected {extra}, same set but other order: {same_set}", level=lvname,
                            order_only=same_set)
            h = {c: i for i, c in enumerate(header)}
            for r, o in zip(rows, e):
                if r[h["peptide"]] != o["peptide"] or r[h["proteinIds"]] != o["proteinIds"] or \
                        not np.isclose(float(r[h["score"]]), float(o["score"]), rtol=1e-9):
                    return viol("row_mixed", f"{name}: row of {o['PSMId']} does not carry that PSM's peptide/proteins/score",
                                level=lvname)
                if not np.isclose(float(r[h["q_value"]]), qmap[o["PSMId"]], rtol=1e-5, atol=1e-9):
                    return viol("qvalue", f"{name}: q-value of {o['PSMId']} is {r[h['q_value']]}, formula on retained rows gives "
                                f"{qmap[o['PSMId']]:.8g}", level=lvname)
    return out


def shrink_candidates(scn):
    if scn["max_workers"] > 1:
        c = clone(scn); c["max_workers"] = 1; c["sched"] = {"mode": "fifo"}; yield c
    if scn["format"] != "pin":
        c = clone(scn); c["format"] = "pin"; c["row_group"] = None; yield c
    for k in list(scn.get("knobs") or {}):
        c = clone(scn); del c["knobs"][k]; yield c
    if scn.get("glob_seed") is not None:
        c = clone(scn); c["glob_seed"] = None; yield c
    if len(scn["tables"]) > 1:
        c = clone(scn); c["tables"] = c["tables"][:-1]
        if c["conf"].get("prefixes"):
            c["conf"]["prefixes"] = c["conf"]["prefixes"][:-1]
        if c.get("rollup_tool"):
            c["rollup_tool"]["roots"] = c["rollup_tool"]["roots"][:-1]
        yield c
    if scn.get("prior"):
        c = clone(scn); c["prior"] = None; yield c
    if scn["tie_mode"] and scn.get("score_mode") != "quantised":
        c = clone(scn); c["tie_mode"] = False; yield c
    if scn.get("score_mode") == "zero_anchor":
        c = clone(scn); c["score_mode"] = "plain"; yield c
    conf = scn["conf"]
    if not conf["dedup"]:
        c = clone(scn); c["conf"]["dedup"] = True; yield c
    if conf["rollup"] and not scn.get("rollup_tool"):
        c = clone(scn); c["conf"]["rollup"] = False; yield c
    for i, t in enumerate(scn["tables"]):
        if t["level_cols"]:
            c = clone(scn)
            for tt in c["tables"]:
                tt["level_cols"] = []
            yield c
            break
    for i, t in enumerate(scn["tables"]):
        if t["n_spectra"] > 25:
            c = clone(scn); c["tables"][i]["n_spectra"] = max(25, int(t["n_spectra"] * 0.7)); yield c
        if t["max_per_spectrum"] > 1:
            c = clone(scn); c["tables"][i]["max_per_spectrum"] = t["max_per_spectrum"] - 1; yield c
    t0 = scn["tables"][0]
    for x in list(t0["spec_extra"]):
        c = clone(scn)
        for tt in c["tables"]:
            tt["spec_extra"] = [y for y in tt["spec_extra"] if y != x]
        yield c
    if t0["label_enc"] != "pm1":
        c = clone(scn)
        for tt in c["tables"]:
            tt["label_enc"] = "pm1"
        yield c
    for k, v in (scn.get("knobs") or {}).items():
        if 2 < v < 10**8:
            c = clone(scn); c["knobs"][k] = max(1, v // 2); yield c
