#!/venv/bin/python
"""Debug helper: run scenario #i of a check in-process and print the outcome.
usage: tools/dbg.py C05 <index|replay.json> [VERIF_SEED]"""
import importlib, json, os, shutil, sys
sys.path.insert(0, os.path.dirname(os.path.dirname(os.path.abspath(__file__))))
os.environ.setdefault("PYTHONHASHSEED", "0")
os.environ["MOKAPOT_VERIF"] = "1"
for _v in ("OMP_NUM_THREADS", "OPENBLAS_NUM_THREADS", "MKL_NUM_THREADS", "NUMBA_NUM_THREADS"):
    os.environ[_v] = "1"
sys.path.insert(0, os.environ.get("VERIF_REPO", "/repo"))
from vsim import pool
from vsim.cli import CHECKS
from vsim.util import derive_seed
prop, what = sys.argv[1], sys.argv[2]
bs = int(sys.argv[3]) if len(sys.argv) > 3 else 0
mod = importlib.import_module(CHECKS[prop])
pool.warm_up()
if what.endswith(".json"):
    scn = json.load(open(what))["scenario"]
else:
    it = mod.scenarios("quick", bs)
    for _ in range(int(what) + 1):
        scn = next(it)
wd = "/dev/shm/vsim-dbg"
shutil.rmtree(wd, ignore_errors=True); os.makedirs(wd)
print(json.dumps(scn)[:1500])
out = mod.run_scenario(scn, wd)
out.pop("schedule", None); out.pop("sample", None)
print(json.dumps(out, indent=1, default=str)[:3000])
