"""World B with a *history*: earlier runs (possibly crashed) followed by an
observed run in the same directories.  Every run executes in a forked step
process (so that a kill fault really is a process death: no finally block, no
buffered flush, no cleanup) forked from an orchestrator that never starts
threads."""

from __future__ import annotations

import json
import os
from pathlib import Path

from .. import fsfault, pool
from . import confidence as W


def _run_conf_step(arg):
    """Forked step: one assign_confidence run described by arg['run'] in arg['root']."""
    import random

    import numpy as np

    run = arg["run"]
    random.seed(run.get("seed", 0))
    np.random.seed(run.get("seed", 0) & 0x7FFFFFFF)
    root = Path(arg["root"])
    tables = [W.build_conf_table(p) for p in run["tables"]]
    scores = [W.gen_scores(t, f"{run['score_seed']}|{i}") for i, t in enumerate(tables)]
    res = W.run_assign_confidence(
        tables, scores, run["conf"], root, run.get("in_name", "in"), fmt=run["format"], row_group=run.get("row_group"),
        sched_desc=run.get("sched"), knobs=run.get("knobs"), glob_seed=run.get("glob_seed"),
        faults=[run["fault"]] if run.get("fault") else None, killable=True, report_path=arg.get("report"),
        dest=root / "out", max_workers=run.get("max_workers", 1), fasta_seed=run.get("fasta_seed"),
        sqlite=bool(run.get("sqlite")),
    )
    rep = res.fs.report()
    rep["sqlite_dump"] = res.sqlite_dump
    rep["error"] = res.error
    rep["etype"] = type(res.exc).__name__ if res.exc is not None else None
    rep["site"] = (res.err_sig() or {}).get("site")
    rep["sched"] = res.sched.stats()
    return rep


def run_conf(run, root, timeout=90):
    """Execute one run in a forked step.  Returns a report dict with key 'outcome'
    in {"ok", "error", "killed", "timeout"}."""
    report = os.path.join(str(root), f".report-{os.getpid()}-{run.get('tag', 'r')}.json")
    os.makedirs(root, exist_ok=True)
    if os.path.exists(report):
        os.unlink(report)
    r = pool.run_step(_run_conf_step, {"run": run, "root": str(root), "report": report}, timeout=timeout)
    if r.get("ok"):
        rep = r["result"]
        rep["outcome"] = "error" if rep.get("error") else "ok"
    elif "killed" in r:
        rep = {}
        if os.path.exists(report):
            with open(report) as fh:
                rep = json.load(fh)
        rep["outcome"] = "killed"
        rep["exit"] = r["killed"]
    elif r.get("timeout"):
        rep = {"outcome": "timeout"}
    else:
        rep = {"outcome": "harness_error", "error": r.get("error"), "traceback": r.get("traceback")}
    if os.path.exists(report):
        os.unlink(report)
    return rep


# ------------------------------------------------------------------------ CLI
def write_ragged_pin(path, table, rng_seed=0, default_direction=False):
    """A PIN whose protein column holds a tab-separated list of 1-3 proteins."""
    import random

    rng = random.Random(f"ragged|{rng_seed}")
    cols = table["columns"]
    pi = cols.index("Proteins")
    assert pi == len(cols) - 1
    from ..datagen import fmt_cell

    with open(path, "w", newline="") as fh:
        fh.write("\t".join(cols) + "\n")
        if default_direction:
            fh.write("DefaultDirection\t-\t-" + "\t0" * (len(cols) - 3) + "\n")
        for r in table["rows"]:
            cells = [fmt_cell(v) for v in r]
            extra = rng.choice([0, 0, 1, 2])
            prots = [cells[pi]] + [f"{cells[pi]}_alt{j}" for j in range(extra)]
            fh.write("\t".join(cells[:pi] + prots) + "\n")


def expected_conversion(path_text):
    """What the rectangular conversion of a ragged PIN must look like (C19's rule,
    re-stated: same header, one line per PSM in order, surplus fields folded into
    the protein column with ':')."""
    lines = path_text.split("\n")
    if lines and lines[-1] == "":
        lines.pop()
    header = lines[0].strip()
    n = len(header.split("\t"))
    out = [header]
    for ln in lines[1:]:
        ln = ln.strip()
        if ln.startswith("DefaultDirection"):
            continue
        f = ln.split("\t")
        out.append("\t".join(f[: n - 1] + [":".join(f[n - 1:])]))
    return "\n".join(out) + "\n"


def _run_cli_step(arg):
    import random

    import numpy as np

    from mokapot import mokapot as cli

    from .. import world

    run = arg["run"]
    random.seed(run.get("seed", 0))
    np.random.seed(run.get("seed", 0) & 0x7FFFFFFF)
    argv = [str(x) for x in run["argv"]]
    err = None
    etype = None
    with world.sim_env(run.get("sched"), run.get("knobs"), faults=[run["fault"]] if run.get("fault") else None,
                       glob_seed=run.get("glob_seed"), killable=True, report_path=arg.get("report")) as (sch, fs):
        try:
            cli.main(argv)
        except SystemExit as exc:
            if exc.code not in (0, None):
                err, etype = f"SystemExit({exc.code})", "SystemExit"
        except Exception as exc:  # noqa: BLE001
            from ..util import exc_site, short_msg

            err, etype = f"{short_msg(exc)} at {exc_site(exc)}", type(exc).__name__
    rep = fs.report()
    rep["error"], rep["etype"] = err, etype
    rep["sched"] = sch.stats()
    return rep


def run_cli(run, root, timeout=180):
    report = os.path.join(str(root), f".report-{os.getpid()}-cli.json")
    os.makedirs(root, exist_ok=True)
    if os.path.exists(report):
        os.unlink(report)
    r = pool.run_step(_run_cli_step, {"run": run, "report": report}, timeout=timeout)
    if r.get("ok"):
        rep = r["result"]
        rep["outcome"] = "error" if rep.get("error") else "ok"
    elif "killed" in r:
        rep = {}
        if os.path.exists(report):
            with open(report) as fh:
                rep = json.load(fh)
        rep["outcome"] = "killed"
    elif r.get("timeout"):
        rep = {"outcome": "timeout"}
    else:
        rep = {"outcome": "harness_error", "error": r.get("error"), "traceback": r.get("traceback")}
    if os.path.exists(report):
        os.unlink(report)
    return rep


def read_dir(d):
    out = {}
    if not os.path.isdir(d):
        return out
    for f in sorted(os.listdir(d)):
        p = os.path.join(d, f)
        if os.path.isfile(p) and not f.startswith(".report-"):
            with open(p, "rb") as fh:
                out[f] = fh.read()
    return out


def listing(d):
    return [x for x in fsfault.listing(d) if not os.path.basename(x[0]).startswith(".report-")]


# -------------------------------------------------------------------- rollup tool
def _run_rollup_step(arg):
    import random

    import numpy as np

    run = arg["run"]
    random.seed(1)
    np.random.seed(1)
    res = W.run_rollup(run["src"], run["dest"], level=run.get("level", "psm"), sched_desc={"mode": "fifo"}, knobs=run.get("knobs"),
                       glob_seed=run.get("glob_seed"), faults=[run["fault"]] if run.get("fault") else None)
    rep = res.fs.report()
    rep["error"] = res.error
    rep["etype"] = type(res.exc).__name__ if res.exc is not None else None
    return rep


def run_rollup_hist(run, root, timeout=120):
    report = os.path.join(str(root), f".report-{os.getpid()}-rollup.json")
    os.makedirs(root, exist_ok=True)
    if os.path.exists(report):
        os.unlink(report)
    r = pool.run_step(_kill_wrapper, {"fn": "rollup", "run": run, "report": report}, timeout=timeout)
    if r.get("ok"):
        rep = r["result"]
        rep["outcome"] = "error" if rep.get("error") else "ok"
    elif "killed" in r:
        rep = {}
        if os.path.exists(report):
            with open(report) as fh:
                rep = json.load(fh)
        rep["outcome"] = "killed"
    elif r.get("timeout"):
        rep = {"outcome": "timeout"}
    else:
        rep = {"outcome": "harness_error", "error": r.get("error"), "traceback": r.get("traceback")}
    if os.path.exists(report):
        os.unlink(report)
    return rep


def _kill_wrapper(arg):
    """run_rollup builds its FS seam through world.sim_env, which needs killable/report settings."""
    from .. import world

    orig = world.sim_env

    def sim_env(*a, **kw):
        kw["killable"] = True
        kw["report_path"] = arg["report"]
        return orig(*a, **kw)

    world.sim_env = sim_env
    W.world.sim_env = sim_env
    try:
        return _run_rollup_step(arg)
    finally:
        world.sim_env = orig
        W.world.sim_env = orig
