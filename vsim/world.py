"""Common run environment: one scheduler + knob setting + FS seam per execution."""

from __future__ import annotations

import contextlib
import random
from pathlib import Path

from . import datagen, fsfault, knobs as knobmod, sched as schedmod
from .util import digest


def gen_sched(rng, max_workers, est_steps=4000):
    """Seeded schedule description for a run with `max_workers` workers."""
    r = rng.random()
    if r < 0.65:
        return {
            "seed": rng.getrandbits(32),
            "mode": "random",
            "switch_p": rng.choice([0.002, 0.01, 0.03, 0.08, 0.2, 0.5]),
            "boundary_p": rng.choice([0.1, 0.5, 0.9]),
            "lookahead": rng.choice([1, 2, 2, 2, 64]),
        }
    if r < 0.95:
        return {
            "seed": rng.getrandbits(32),
            "mode": "pct",
            "pct_d": rng.randint(0, 3),
            "est_steps": rng.choice([200, 1000, est_steps]),
            "lookahead": rng.choice([1, 2, 2, 64]),
        }
    return {"seed": 0, "mode": "fifo", "lookahead": 2}


def make_scheduler(sd):
    sd = sd or {"mode": "fifo"}
    return schedmod.Scheduler(
        seed=sd.get("seed", 0),
        mode=sd.get("mode", "random"),
        switch_p=sd.get("switch_p", 0.05),
        boundary_p=sd.get("boundary_p", 0.5),
        pct_d=sd.get("pct_d", 2),
        est_steps=sd.get("est_steps", 4000),
        explicit=sd.get("explicit"),
        step_cap=sd.get("step_cap", 3_000_000),
        trace_lines=sd.get("trace_lines", True),
        lookahead_factor=sd.get("lookahead", 2),
    )


@contextlib.contextmanager
def sim_env(sched_desc=None, knob_values=None, faults=None, glob_seed=None, killable=False,
            report_path=None):
    """Install scheduler, knobs and FS seam; yields (scheduler, fs)."""
    sch = make_scheduler(sched_desc)
    fs = fsfault.FS(plan=faults, glob_seed=glob_seed, killable=killable, report_path=report_path)
    # mode "real": leave joblib's own thread pool in place (stub-fidelity self-test only)
    saved = {} if (sched_desc or {}).get("mode") == "real" else schedmod.install(sch)
    try:
        knobmod.set_knobs({k: v for k, v in (knob_values or {}).items()})
        fs.install()
        try:
            yield sch, fs
        finally:
            fs.uninstall()
    finally:
        knobmod.reset_knobs()
        schedmod.uninstall(saved)


def sched_digest(sch):
    return digest([sch.switches, sch.task_order, sch.finish_order])


def explicit_schedule(sch):
    return {"mode": "explicit", "explicit": [list(x) for x in sch.switches], "lookahead": sch.lookahead_factor}


def big_knobs():
    return {k: knobmod.BIG for k in knobmod.KNOBS if k != "CHUNK_SIZE_COLUMNS_FOR_DROP_COLUMNS"}


def materialise(table, path, fmt, row_group=None, dict_strings=False, index_start=0, na_token="", g_format=False,
                nan_values=False):
    p = Path(path)
    datagen.write_table(p, table, row_group if fmt == "parquet" else None, dict_strings=dict_strings and fmt == "parquet",
                        index_start=index_start if fmt == "parquet" else 0, na_token=na_token, g_format=g_format,
                        nan_values=nan_values and fmt == "parquet")
    return p


def rng_from(seed, *salt):
    return random.Random(f"{seed}|{'|'.join(map(str, salt))}")


# ----------------------------------------------------------------- entropy seam
# `np.random.default_rng(None)` seeds itself from the operating system.  That is a source of nondeterminism like any
# other (a run that forgets to thread its seed through behaves differently every time), so it goes behind a seam:
# unseeded generators draw their seed from a simulator-owned stream that is re-seeded per scenario.  Two executions
# inside one scenario still get *different* entropy (as in reality), but a replay gets the same sequence again.
_ENTROPY = random.Random(0)
_ORIG_DEFAULT_RNG = None
ENTROPY_DRAWS = {"n": 0}


def seed_entropy(seed):
    _ENTROPY.seed(f"entropy|{seed}")
    ENTROPY_DRAWS["n"] = 0


def install_entropy_seam():
    global _ORIG_DEFAULT_RNG
    import numpy as np

    if _ORIG_DEFAULT_RNG is not None:
        return
    _ORIG_DEFAULT_RNG = np.random.default_rng

    def default_rng(seed=None, *a, **kw):
        if seed is None:
            ENTROPY_DRAWS["n"] += 1
            seed = _ENTROPY.getrandbits(64)
        return _ORIG_DEFAULT_RNG(seed, *a, **kw)

    np.random.default_rng = default_rng


# ------------------------------------------------------ uninitialised-memory seam
# The contents of np.empty / np.empty_like buffers are whatever the allocator left there - a nondeterminism source
# (results that leak such bytes differ from run to run and between interpreter sessions).  Buffers requested *by
# mokapot code* are therefore poisoned with a value drawn from the simulator's entropy stream (cf. MSan), so that a
# leak shows up as a replayable difference between two executions instead of depending on heap history.
UNINIT_FILLS = {"n": 0}
_POISON = (0.0, -1.0, 3.0e38, -7.5e-41, 0.5)


def install_uninit_seam():
    import sys

    import numpy as np

    if getattr(np, "_vsim_uninit_seam", False):
        return
    from .sched import _mokapot_dir

    moka = _mokapot_dir()
    orig_empty, orig_empty_like = np.empty, np.empty_like

    def _poison(arr):
        try:
            if arr.dtype.kind in "fiu" and arr.size:
                UNINIT_FILLS["n"] += 1
                v = _POISON[_ENTROPY.randrange(len(_POISON))]
                arr.fill(v if arr.dtype.kind == "f" else int(v) % 97)
        except Exception:  # noqa: BLE001
            pass
        return arr

    def empty(*a, **kw):
        arr = orig_empty(*a, **kw)
        if sys._getframe(1).f_code.co_filename.startswith(moka):
            _poison(arr)
        return arr

    def empty_like(*a, **kw):
        arr = orig_empty_like(*a, **kw)
        if sys._getframe(1).f_code.co_filename.startswith(moka):
            _poison(arr)
        return arr

    np.empty, np.empty_like = empty, empty_like
    np._vsim_uninit_seam = True
