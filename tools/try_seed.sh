#!/bin/sh
# Run one check against one seeded change (or any patch) in a scratch worktree, whatever meta.json says about it.
# usage: tools/try_seed.sh <seeded-id | path/to/patch.diff> [property] [extra ./check args]
cd "$(dirname "$0")/.."
id=$1; prop=${2:-$(basename "$id" | cut -d- -f1)}; shift; [ $# -gt 0 ] && shift
patch=$id; [ -f "$patch" ] || patch=$(pwd)/seeded/$id/patch.diff
OUT=$(mktemp -d /dev/shm/vsim-try-XXXXXX)
WT=$OUT/wt
git -C /repo worktree add -q --detach "$WT" HEAD || exit 2
git -C "$WT" apply "$patch" || { echo "patch does not apply"; git -C /repo worktree remove --force "$WT"; rm -rf $OUT; exit 2; }
export VERIF_EVIDENCE_DIR=$OUT/evidence VERIF_REPLAY_DIR=$OUT/replays VERIF_MINIMISE_S=${VERIF_MINIMISE_S:-15}
VERIF_REPO="$WT" timeout 2400 ./check $prop --tier quick "$@" > $OUT/log 2>&1
rc=$?
clauses=$(grep "^clause:" $OUT/log | sort -u | tr '\n' ' ')
if [ $rc -eq 1 ] && grep -q "^VIOLATION property=" $OUT/log; then echo "$(basename $id) vs $prop: caught ($clauses)"; grep -m3 "^message:\|^  message" $OUT/log; else echo "$(basename $id) vs $prop: MISSED rc=$rc"; tail -5 $OUT/log; fi
git -C /repo worktree remove --force "$WT"
rm -rf $OUT
[ $rc -eq 1 ]
