#!/usr/bin/env python3
"""Regenerates /verif/MANIFEST.json from the table below (kept in one place so
that the manifest is always schema-valid and in step with the checks)."""
import json
import os
import sys

HERE = os.path.dirname(os.path.dirname(os.path.abspath(__file__)))

NA = {
    "C01": "pure function of (scores, labels, direction): no schedule, fault, crash point or history to simulate; its formula is re-implemented as the oracle used inside C03/C07/C11",
    "C04": "statement about the expectation of a false-discovery proportion over a data distribution (Monte-Carlo estimation, not a schedule/fault search); its two mechanisms are decided by C02 (no leakage) and C03 (competition before estimation, +1 formula)",
    "C06": "pure numerical estimators of (scores, labels, algorithm); no seam, schedule or fault in the statement",
    "C12": "Model.fit/predict/save/load run sequentially on private state with an explicit RNG argument; quantifier is over inputs and switches only",
    "C15": "pure table-to-table function (picked_protein); no schedule, stream fault or history in the statement",
    "C17": "pure string function (digest)",
    "C18": "pure function of (FASTA text, RNG state); the randomness is an input, not a schedule",
    "C19": "pure text transformation; the one place where it meets a history of earlier runs (the CLI's temporary .tsv) is decided under C09",
    "C20": "pure parse of one document (lxml.iterparse), no fault or interleaving in the statement",
}

# id -> (level, design_ref, technique, level text, level note)
CHECKS = {}


def check(pid, level, ref, technique, text, note):
    CHECKS[pid] = (level, ref, technique, text, note)


NOTE = ("Trusts pandas/pyarrow/triqler/scikit-learn as installed, the generators' bounds (listed in evidence.assumptions) and "
        "SimParallel's fidelity to joblib's threading backend (checked by ./check selftest-fidelity). Sampling, not proof.")

check(
    "C02", "exploration", "DESIGN.md §5 C02",
    "deterministic simulation: brew's worker threads under a seeded baton-passing scheduler with line-level pre-emption, seeded chunk knobs, and a recording estimator; fold-integrity reference model over the recorded fit/predict rows",
    "Seeded search over data sets x fold counts x caps x worker schedules x chunk sizes; every run is checked against a model of what fold integrity means (partition, spectra kept together, no training row in the held-out fold, score produced by the fold's model). The failures this guards against need a particular interleaving or chunking, which only a controlled sweep reaches.",
    NOTE,
)
check(
    "C03", "exploration", "DESIGN.md §5 C03",
    "deterministic simulation: assign_confidence spill workers under the seeded scheduler, seeded confidence/merge chunk sizes and spill-file listing order; dictionary competition model + reference TDC as oracle; brew_rollup as second workload",
    "Seeded search over tables x score vectors (strict and with planted exact ties) x switches x chunk sizes x schedules, each compared with an in-memory competition/rollup model and the defining q-value formula.",
    NOTE,
)
check(
    "C05", "exploration", "DESIGN.md §5 C05",
    "deterministic simulation, differential: reference execution (text, knobs > file, no threads) vs perturbed execution (six seeded chunk knobs, 2-16 workers under a seeded schedule, permuted listings, Parquet row groups)",
    "One scenario executed twice; the perturbed execution must agree with the reference on error parity, parsed data, scores, coefficients and every result file. This is the property the technique fits best: schedule x knobs x format is exactly the space the simulator owns.",
    NOTE,
)
check(
    "C07", "fault_enumeration", "DESIGN.md §5 C07",
    "deterministic simulation with fault injection at the learner seam: all 6^folds assignments of estimator fault modes (noise, constant, recognised error, anti, memorise) per sampled data set, x label encodings x feature direction; accept-count/fallback oracle + direction clause on assign_confidence",
    "For every sampled data set and fold count <= 4 the complete space of per-fold learner faults is enumerated; data sets, encodings, schedules are sampled.",
    NOTE,
)
check(
    "C08", "exploration", "DESIGN.md §5 C08",
    "deterministic simulation over histories: repeat in process, fresh interpreter under another PYTHONHASHSEED, 2-8 workers under several seeded schedules, every permutation of fed-back models; byte equality of digests",
    "Seeded search over data/config; each scenario is a history of executions that must be bit-identical (fold assignment, coefficients, scores, PSM/peptide/protein result files).",
    NOTE,
)
check(
    "C09", "fault_enumeration", "DESIGN.md §5 C09",
    "deterministic simulation with crash/fault injection: every mutation call (write/append/unlink/move) of an earlier run x {io error, kill before, kill after, torn write} in forked step processes, multi-run histories, CLI conversion crashes; observed run == clean-directory run",
    "Crash points of one earlier run are enumerated completely per sampled grid cell (and all .tsv write calls in the thorough CLI family); multi-run histories are sampled. Oracle: byte-identical results vs a clean directory, intermediates gone, user's PIN intact.",
    NOTE + " Crash = process death with page cache intact (kill -9).",
)
check(
    "C10", "exploration", "DESIGN.md §5 C10",
    "deterministic simulation: read_pin's column-scan workers under the seeded scheduler, seeded scan chunk sizes / row groups / table shapes, plain-Python parse model as oracle",
    "Seeded search over table shapes x scan-chunk knobs x worker schedules with a reference parse model as oracle. The failures depend on feature-count modulo chunk-size, which only a sweep reaches.",
    NOTE,
)
check(
    "C11", "exploration", "DESIGN.md §5 C11",
    "deterministic simulation: same World-A executions as C02 with a recording estimator; per-fold affine calibration reference model (anchors 0 and -1) incl. the explicit-error path",
    "Seeded search; per (fold, collection) the returned scores must equal (r - t0)/(t0 - d) computed from the recorded raw outputs with the reference TDC.",
    NOTE,
)
check(
    "C13", "exploration", "DESIGN.md §5 C13",
    "seeded stateful operation histories (Hypothesis rule-based machine outside pytest, one process per seed) over readers/writers with buffer/chunk/row-group knobs; list-of-rows table model checked after every operation; recorded op list is the replay file",
    "Histories of writer/reader operations with configuration knobs, checked against a table model operation by operation; no fault is injected because the statement promises nothing after a failed append.",
    "Trusts pandas/pyarrow as installed and the value domain listed in evidence.assumptions. Sampling, not proof.",
)
check(
    "C14", "exploration", "DESIGN.md §5 C14",
    "seeded stateful operation histories over sorted runs and both merge implementations with chunk knobs, plus one injected fault kind (unsorted stored run must be rejected); multiset + order model",
    "Histories of run creation / merging with ties, single-row runs, both directions, all row kinds and chunk sizes; the sortedness fault checks the rejection clause.",
    "Trusts pandas/pyarrow as installed. Sampling, not proof.",
)
check(
    "C16", "exploration", "DESIGN.md §5 C16",
    "deterministic simulation of the hash-order / entry-order nondeterminism: each structure parsed under 3 entry orders in this interpreter and in 2 fresh interpreters with other PYTHONHASHSEEDs; grouping invariants + equality of canonical forms",
    "Order-independence is decided by varying the nondeterminism source directly (hash seed, entry order); the structural half is evaluated as an invariant on every simulated run over sampled structures plus blocks of the exhaustive <=4x4 enumeration.",
    "Incidence is taken from mokapot.digest (C17's function). Sampling, not proof.",
)

PENDING = {}


def main():
    ids = [json.loads(line)["id"] for line in open(os.path.join(HERE, "properties.jsonl"))]
    checks = []
    for pid in ids:
        if pid not in CHECKS:
            continue
        level, ref, technique, text, note = CHECKS[pid]
        checks.append({
            "property_id": pid,
            "quick_cmd": f"timeout 900 ./check {pid} --tier quick",
            "thorough_cmd": f"timeout 5400 ./check {pid} --tier thorough",
            "evidence_file": f"evidence/{pid}.json",
            "replay_cmd_template": f"./check {pid} --replay {{path}}",
            "engine": "vsim",
            "level_claimed": {"category": level, "text": text, "design_ref": ref},
            "level_note": note,
            "technique": technique,
        })
    na = []
    for pid in ids:
        if pid in CHECKS:
            continue
        reason = NA.get(pid) or PENDING.get(pid) or "check under construction in this round (see DESIGN.md §5); not claimed yet"
        na.append({"property_id": pid, "reason": reason})
    manifest = {
        "version": 1,
        "setup_cmd": "./setup.sh",
        "hooks": {
            "guard": "MOKAPOT_VERIF",
            "enable": "one hook: with MOKAPOT_VERIF=1 in the environment (./check exports it; nothing is built) mokapot.constants defines TRAIN_SETS_BLOCK_SIZE and brew.make_train_sets uses it instead of its literal 5,000,000-row block, so that the simulator can make small files span several blocks (the knob layer vsim/knobs.py then sets it per scenario like the six shipped chunk sizes). Guard off: the name is None and the literal applies. Every other seam (module-level Parallel names, chunk-size module globals, the names mokapot.mokapot.main calls, Path.glob, pandas/pyarrow/os mutation calls, numpy's default_rng/empty, the estimator API, PYTHONHASHSEED) is owned from outside by /verif/vsim",
            "baseline_off_cmd": "cd /repo && /venv/bin/python -m pytest -ra -q -p no:cacheprovider --timeout=900 --continue-on-collection-errors",
            "source_commits": ["a56b8c7192cdfcb79f43f54ca3fe822f07c2a549"],
            "add_only": True,
        },
        "engines": [{
            "name": "vsim",
            "path": "vsim/",
            "serves_properties": sorted(CHECKS),
            "kind_free_text": "deterministic simulation with fault injection: seeded baton-passing thread scheduler replacing joblib.Parallel (line-level pre-emption via sys.settrace), chunk-size buggify knobs, file-system mutation seam with io-error/kill/torn-write faults in forked step processes, directory-listing permutation, entropy seam (unseeded numpy generators) and uninitialised-memory seam (np.empty poisoning), fork-per-scenario pool, reference models as oracles, scenario + schedule minimiser (delta-debugged explicit switch lists) and replay files",
        }],
        "checks": checks,
        "not_applicable": na,
        "notes": "21 fix: commits in /repo are recorded in known_findings.json ('fixed' entries; no open finding). 121 changes seeded by independent sub-agents are kept under seeded/ with what catches them; self-tests: ./check selftest-determinism | selftest-fidelity | selftest-mutants. See DESIGN.md section 0.",
    }
    with open(os.path.join(HERE, "MANIFEST.json"), "w") as fh:
        json.dump(manifest, fh, indent=1)
    print("wrote MANIFEST.json with", len(checks), "checks,", len(na), "not applicable")


if __name__ == "__main__":
    sys.exit(main())
