"""Harness-owned estimators passed through mokapot's public Model API (seam S9).

RecordingLDA: closed-form linear discriminant (deterministic, no RNG) that
  * ignores the *tag* feature (a unique row id planted by the data generator)
    for learning, but records the tags of every row it is fitted on and of
    every row it scores, together with the phase (training loop vs prediction),
  * optionally is order-sensitive (fits on the first `order_frac` of its rows),
    the way SGD / sub-sampling / positional K-fold learners are,
  * optionally misbehaves (C07): noise, constant, raise, anti, memorise.
"""

from __future__ import annotations

import sys

import numpy as np
from sklearn.base import BaseEstimator, ClassifierMixin


REGISTRY = []  # every RecordingLDA that was fitted in this process (survives a failing brew)


def _phase_and_fold():
    """Walk the stack: are we inside Model.fit (training loop) or not; which Model?"""
    f = sys._getframe(2)
    phase = "predict"
    fold = None
    while f is not None:
        code = f.f_code
        if code.co_filename.endswith("model.py") and "mokapot" in code.co_filename:
            slf = f.f_locals.get("self")
            if slf is not None and hasattr(slf, "fold") and fold is None:
                fold = slf.fold
            if code.co_name == "fit":
                phase = "train"
        f = f.f_back
    return phase, fold


class RecordingLDA(ClassifierMixin, BaseEstimator):
    def __init__(self, tag_idx=None, order_frac=None, ridge=1e-2, mode="good", fold_tags=None, noise_seed=0,
                 record=True, round_out=None, affine_out=None, overfit_noise=1.5):
        self.tag_idx = tag_idx
        self.order_frac = order_frac
        self.ridge = ridge
        self.mode = mode
        self.fold_tags = fold_tags  # C07: list of held-out tag lists per fold; mode may be a list per fold
        self.noise_seed = noise_seed
        self.record = record
        self.round_out = round_out  # decimals: a coarse output scale produces exact ties between PSMs
        self.affine_out = affine_out  # (a, b): the decision function is reported as a + b * margin (another offset / unit)
        self.overfit_noise = overfit_noise  # how badly mode "overfit" generalises (1.5: much worse than the best feature)

    # ------------------------------------------------------------- helpers
    def _split(self, X):
        X = np.asarray(X, dtype=float)
        if self.tag_idx is None:
            return X, None
        tags = np.rint(X[:, self.tag_idx]).astype(np.int64)
        keep = [j for j in range(X.shape[1]) if j != self.tag_idx % X.shape[1]]
        return X[:, keep], tags

    def _my_mode(self, tags):
        mode = self.mode
        if isinstance(mode, (list, tuple)):
            # which fold do I serve?  The one whose held-out tags are disjoint from my training tags.
            fold = getattr(self, "served_fold_", None)
            if fold is None:
                tset = set(tags.tolist())
                fold = 0
                for i, held in enumerate(self.fold_tags):
                    if tset.isdisjoint(held):
                        fold = i
                        break
                self.served_fold_ = fold
            return mode[fold]
        return mode

    # ----------------------------------------------------------------- API
    def fit(self, X, y):
        F, tags = self._split(X)
        y = np.asarray(y).astype(float)
        if not hasattr(self, "fit_log_"):
            self.fit_log_ = []
            self.pred_log_ = []
            REGISTRY.append(self)
        if self.record and tags is not None:
            _ph, fold = _phase_and_fold()
            self.fit_log_.append({"tags": tags.tolist(), "y": y.astype(int).tolist(), "fold": fold})
        mode = self._my_mode(tags) if tags is not None else self.mode
        self.mode_ = mode
        if mode == "raise_recognised":
            raise RuntimeError("Model performs worse after training.")
        n = len(y)
        if self.order_frac:
            k = max(2, int(np.ceil(self.order_frac * n)))
            Fs, ys = F[:k], y[:k]
            if len(np.unique(ys)) < 2:
                Fs, ys = F, y
        else:
            Fs, ys = F, y
        pos = Fs[ys > 0.5]
        neg = Fs[ys <= 0.5]
        if len(pos) == 0 or len(neg) == 0:
            w = np.zeros(F.shape[1])
            b = 0.0
        else:
            mu1, mu0 = pos.mean(axis=0), neg.mean(axis=0)
            Xc = np.vstack([pos - mu1, neg - mu0])
            S = Xc.T @ Xc / max(1, len(Xc) - 2) + self.ridge * np.eye(F.shape[1])
            w = np.linalg.solve(S, mu1 - mu0)
            b = -float(w @ (mu1 + mu0)) / 2.0
        if mode == "anti":
            w, b = -w, -b
        self.coef_ = w.reshape(1, -1)
        self.intercept_ = np.array([b])
        self.classes_ = np.array([0, 1])
        if mode in ("memorise", "overfit") and tags is not None:
            self.memo_ = {int(t): (50.0 if yy > 0.5 else -50.0) for t, yy in zip(tags, y)}
            self.noise_scale_ = float(np.std(F @ w + b)) or 1.0
        return self

    def _decision(self, X, transform=None):
        F, tags = self._split(X)
        mode = getattr(self, "mode_", self.mode if isinstance(self.mode, str) else "good")
        out = F @ self.coef_.ravel() + self.intercept_[0]
        if mode == "constant":
            out = np.zeros(len(F))
        elif mode == "noise" and tags is not None:
            out = _hash_noise(tags, self.noise_seed)
        elif mode == "memorise" and tags is not None:
            noise = _hash_noise(tags, self.noise_seed)
            memo = self.memo_
            out = np.array([memo.get(int(t), float(nz)) for t, nz in zip(tags, noise)])
        elif mode == "overfit" and tags is not None:
            # fits its training rows perfectly, generalises poorly (signal drowned in noise) but not at random:
            # held-out folds still accept a few targets, so calibration succeeds and brew must notice that the
            # cross-validated scores are worse than the best feature
            noisy = out + float(self.overfit_noise) * self.noise_scale_ * _hash_noise(tags, self.noise_seed) * 1.7320508
            memo = self.memo_
            out = np.array([memo.get(int(t), float(v)) for t, v in zip(tags, noisy)])
        if self.round_out is not None:
            out = np.round(out, int(self.round_out))
        if self.affine_out is not None:
            out = float(self.affine_out[0]) + float(self.affine_out[1]) * out
        if transform is not None:
            out = transform(out)
        if self.record and tags is not None:
            phase, fold = _phase_and_fold()
            if not hasattr(self, "pred_log_"):
                self.pred_log_ = []
            self.pred_log_.append({"phase": phase, "fold": fold, "tags": tags.tolist(), "out": np.asarray(out, float).tolist()})
        return out

    def decision_function(self, X):
        return self._decision(X)

    def predict(self, X):
        return (self._decision(X) > 0).astype(int)


class RecordingProbaLDA(RecordingLDA):
    """Same learner, but exposes only predict_proba (two columns), like tree ensembles or neural nets:
    mokapot then takes column 1 and does not calibrate between folds."""

    @property
    def decision_function(self):  # hasattr(...) is False
        raise AttributeError("decision_function")

    def predict_proba(self, X):
        # the recorded raw output is the probability mokapot is meant to use (column 1)
        p = self._decision(X, transform=lambda z: 1.0 / (1.0 + np.exp(-np.clip(z / 4.0, -30, 30))))
        return np.vstack([1.0 - p, p]).T


class RecordingBothLDA(RecordingLDA):
    """decision_function AND predict_proba (like LogisticRegression): mokapot must use and calibrate the decision values."""

    def predict_proba(self, X):
        rec, self.record = self.record, False  # a probability query is not recorded as a scoring call
        try:
            z = self._decision(X)
        finally:
            self.record = rec
        p = 1.0 / (1.0 + np.exp(-np.clip(z / 4.0, -30, 30)))
        return np.vstack([1.0 - p, p]).T


def _hash_noise(tags, seed):
    """Deterministic pseudo-noise per tag (independent of call order)."""
    t = np.asarray(tags, dtype=np.uint64)
    x = (t + np.uint64(seed) * np.uint64(0x9E3779B97F4A7C15)) & np.uint64(0xFFFFFFFFFFFFFFFF)
    x ^= x >> np.uint64(33)
    x = (x * np.uint64(0xFF51AFD7ED558CCD)) & np.uint64(0xFFFFFFFFFFFFFFFF)
    x ^= x >> np.uint64(33)
    x = (x * np.uint64(0xC4CEB9FE1A85EC53)) & np.uint64(0xFFFFFFFFFFFFFFFF)
    x ^= x >> np.uint64(33)
    return (x >> np.uint64(11)).astype(np.float64) / float(1 << 53) * 2.0 - 1.0


def make_model(kind, tag_idx, train_fdr, max_iter, seed, override=False, **kw):
    """Build a mokapot.Model around the chosen learner."""
    import mokapot

    if kind == "rlda":
        est = RecordingLDA(tag_idx=tag_idx, **kw)
        return mokapot.Model(est, scaler="as-is", train_fdr=train_fdr, max_iter=max_iter, override=override, rng=seed)
    if kind == "olda":
        est = RecordingLDA(tag_idx=tag_idx, order_frac=0.8, **kw)
        return mokapot.Model(est, scaler="as-is", train_fdr=train_fdr, max_iter=max_iter, override=override, rng=seed)
    if kind == "default":
        return None  # brew(model=None): mokapot builds its own PercolatorModel
    if kind == "blda":
        est = RecordingBothLDA(tag_idx=tag_idx, **kw)
        return mokapot.Model(est, scaler="as-is", train_fdr=train_fdr, max_iter=max_iter, override=override, rng=seed)
    if kind == "plda":
        est = RecordingProbaLDA(tag_idx=tag_idx, **kw)
        return mokapot.Model(est, scaler="as-is", train_fdr=train_fdr, max_iter=max_iter, override=override, rng=seed)
    if kind == "svc":
        from sklearn.svm import LinearSVC

        return mokapot.Model(LinearSVC(dual=False, random_state=7), train_fdr=train_fdr, max_iter=max_iter,
                             override=override, rng=seed)
    if kind == "perc":
        return mokapot.PercolatorModel(train_fdr=train_fdr, max_iter=max_iter, override=override, rng=seed)
    raise ValueError(kind)
