#!/bin/sh
# Like tools/run_seeded.sh, but each seeded change is applied in a scratch git worktree of /repo HEAD and the check runs
# with VERIF_REPO=<worktree> (equivalent to applying it on /repo; does not need /repo to itself, so it can run next to
# other jobs).  usage: tools/run_seeded_wt.sh [ids...]     env: VERIF_PROCS (default: all cores)
cd "$(dirname "$0")/.."
IDS=${*:-$(ls seeded | grep -v RESULTS)}
OUT=$(mktemp -d /dev/shm/vsim-seededwt-XXXXXX)
WT=$OUT/wt
git -C /repo worktree add -q --detach "$WT" HEAD || exit 2
export VERIF_EVIDENCE_DIR=$OUT/evidence VERIF_REPLAY_DIR=$OUT/replays VERIF_MINIMISE_S=15 VERIF_QUICK_WALL_S=${VERIF_QUICK_WALL_S:-900}
missed=0
for id in $IDS; do
  prop=$(echo $id | cut -d- -f1)
  if grep -q '"status": "missed"' seeded/$id/meta.json; then echo "$id: skipped (recorded as an open gap, see meta.json)"; continue; fi
  other=$(grep -o '"run_seeded_check": "C[0-9]*"' seeded/$id/meta.json | grep -o 'C[0-9]*$'); [ -n "$other" ] && prop=$other
  if grep -q '"inert_since"' seeded/$id/meta.json; then echo "$id: skipped (inert on the repaired tree, see meta.json)"; continue; fi
  git -C "$WT" checkout -q -- . 
  git -C "$WT" apply "$(pwd)/seeded/$id/patch.diff" || { echo "$id: patch does not apply"; missed=$((missed+1)); continue; }
  VERIF_REPO="$WT" timeout 2400 ./check $prop --tier quick > $OUT/$id.log 2>&1
  rc=$?
  clauses=$(grep "^clause:" $OUT/$id.log | sort -u | tr '\n' ' ')
  if [ $rc -eq 1 ] && grep -q "^VIOLATION property=" $OUT/$id.log; then echo "$id: caught ($clauses)"; else echo "$id: MISSED rc=$rc"; missed=$((missed+1)); tail -3 $OUT/$id.log; fi
done
git -C /repo worktree remove --force "$WT"
rm -rf $OUT
echo "seeded run done: missed=$missed"
[ $missed -eq 0 ]
