"""C14 - k-way merge returns every row once, globally sorted by score (World C)."""

from __future__ import annotations

import random

from ..driver import seeds_for
from . import tab_common as tc

PROPERTY = "C14"
LEVEL = "exploration"
QUICK_N = 32
SCENARIO_TIMEOUT = 420
PROBES = ["ops", "merges", "tie_merges", "sortedness_faults", "abandoned_merges", "merges_with_projection", "projection_moves_score_column", "tiny_sortedness_faults"]
RULE = (
    "Hypothesis rule-based state machine run outside pytest, one process per seed: materialise 1-8 sorted runs (descending "
    "or ascending, exact ties within and across runs from a small value pool, single-row runs, csv/parquet, 0-2 extra typed "
    "columns) and merge them with utils.merge_sort (MERGE_SORT_CHUNK_SIZE 1..1000) and with MergedTabularDataReader via "
    "read / chunked iterator / row iterator (DataFrame, Dicts, Records rows) / merge_readers (reader chunk 1..1000); fault "
    "kind: swap two unequal-score rows inside one stored run and require the table merger to raise ValueError. Oracle: "
    "output multiset == union of inputs, rows unmodified, scores monotone in the declared direction. evaluations = "
    "histories; distinct = distinct operation histories."
)
ASSUMPTIONS = [
    "scores are decimals with 6 fractional digits (exact text round trip)",
    "merge_sort (row-dict merge) is only exercised in descending mode, the only mode it has",
    "a swap that leaves the run sorted is not a fault (cannot happen with unequal scores in a strictly ordered run; with "
    "ties around it is checked and skipped)",
]
REAL = ["mokapot.utils.merge_sort / get_next_row", "mokapot.streaming.MergedTabularDataReader / merge_readers",
        "mokapot.tabular_data readers", "pandas", "pyarrow", "file system (/dev/shm)"]
STUBS = []


def make_scenario(seed, tier):
    rng = random.Random(seed)
    return {"property": PROPERTY, "seed": seed, "hyp_seed": rng.getrandbits(32),
            "max_examples": 60 if tier == "quick" else 300, "steps": 14, "replay_ops": None}


def scenarios(tier, batch_seed):
    for _i, s in seeds_for(PROPERTY, batch_seed):
        yield make_scenario(s, tier)


def run_scenario(scn, workdir):
    return tc.run_scenario(scn, workdir, "C14")


shrink_candidates = tc.shrink_candidates
