"""C07 - best-feature safety net.

Fault enumeration at the learner seam: every assignment of a behaviour
(good / noise / constant / raises the recognised error / anti-correlated /
memorises its training rows / overfits: perfect on training rows, poor on held-out rows) to every fold's estimator (all 6^folds for
folds <= 4), over label encodings, lower/higher-is-better best features,
text/Parquet, worker schedules.  Oracle: accept-count/fallback rule from the
property statement, re-computed with the reference TDC and the *true* target
flags, plus the direction clause on assign_confidence's output."""

from __future__ import annotations

import itertools
import random

import numpy as np

from .. import datagen, estimators, refmodel, world
from ..driver import clone
from ..util import derive_seed, digest, exc_is_domain
from ..worlds import pipeline as P

PROPERTY = "C07"
SCHED_PATH = ("sched",)
LEVEL = "fault_enumeration"
QUICK_N = 10**6
SCENARIO_TIMEOUT = 240
MODES = ["good", "noise", "constant", "raise_recognised", "anti", "memorise", "overfit"]
PROBES = ["fallback_taken", "fallback_desc_false", "model_kept", "all_untrained", "some_untrained", "explicit_error",
          "memorise_worse_branch", "override_on", "enc_pm1", "enc_10", "enc_bool", "parquet", "workers>1",
          "zero_scores_returned", "multi_file", "confidence_checked", "confidence_desc_false", "fold_aligned_feature",
          "folds_disagree_on_best_feature", "all_trained_but_fallback", "confidence_rollup_level_checked", "confidence_repeated",
          "feat_pass_compared_with_reference", "integer_best_feature", "tied_values_compete", "targets_listed_before_decoys", "saved_and_loaded_models_reapplied",
          "same_paths_analysed_before_with_other_labels"]
RULE = (
    "For each sampled data set (planted strong feature, lower-is-better in half of them; 3 label encodings; text/Parquet) "
    "and fold count, EVERY assignment of {good, noise, constant, raise_recognised, anti, memorise, overfit} to the folds' estimators "
    "is executed (7^folds, folds <= 4; sampled for 5-6 folds), override off and on, workers under a seeded schedule; a "
    "fault-free first pass with the same seed identifies each fold's held-out rows. Oracle: with override off either "
    "accepted(returned scores) >= max feat_pass, or the returned scores are the best feature's column with its direction; "
    "assign_confidence on the returned (scores, descs) must compete and count in the returned direction. distinct = "
    "distinct (data, config, fault assignment, schedule digest); non-trivial = at least one fold estimator misbehaves."
)
ASSUMPTIONS = [
    "'accepted' is computed with the reference TDC on the true target flags at test_fdr over all collections; 'best' is "
    "max models[i].feat_pass as the statement words it",
    "scenarios with a reference q-value within 1e-6 of the threshold are uninformative (float32 FDR, C01's matter)",
    "a run that stops with an explicit RuntimeError does not hand back scores and is not a violation",
    "all-equal returned scores make PEP estimation degenerate; the confidence clause is then not evaluated",
]
REAL = ["mokapot.brew", "mokapot.model.Model.fit", "mokapot.dataset.update_labels / find_best_feature", "mokapot.read_pin",
        "mokapot.assign_confidence", "pandas", "pyarrow", "triqler", "file system (/dev/shm)"]
STUBS = ["estimator -> vsim.estimators.RecordingLDA with a per-fold fault mode", "joblib.Parallel -> vsim.sched.SimParallel"]
EXHAUSTIVE = False
EXHAUSTIVE_SUBSPACES = ["all 7^folds fault-mode assignments for each sampled (data set, folds<=4, encoding, override)"]


def _data_params(rng, label_enc, lower, big=False):
    nf = rng.randint(2, 4)
    strong = rng.randrange(nf)
    return {
        "data_seed": rng.getrandbits(32),
        "n_files": rng.choice([1, 1, 1, 2]),
        "n_spectra": rng.randint(190, 260) if big else rng.randint(100, 150),
        "max_per_spectrum": rng.choice([1, 2, 2]),
        "n_features": nf,
        "spec_extra": rng.choice([["ExpMass"], ["ret_time"], ["filename", "ExpMass"]]),
        "calcmass": False,
        "label_enc": label_enc,
        "level_cols": [],
        "frac_correct": 0.5,
        "shift": rng.choice([1.2, 1.5]),
        "dup_scan_frac": 0.0,
        "lower_better": strong if lower else None,
        "strong": strong,
    }


def _base(rng, dp, folds, override, fmt):
    workers = rng.choice([1, 1, 2, 3])
    thr = rng.choice([0.1037, 0.2113])
    return {
        "property": PROPERTY,
        "data": dp,
        "cfg": {
            "learner": "rlda", "folds": folds, "test_fdr": thr, "train_fdr": thr, "max_iter": rng.choice([1, 2]),
            "seed": rng.randint(0, 10**6), "subset_max_train": None, "max_workers": workers, "confidence": True,
            "override": override, "raw_conf_scores": True, "confidence_twice": True,
            "conf": {"decoys": True, "dedup": True, "rollup": rng.random() < 0.5},
        },
        "format": fmt,
        "row_group": 37 if fmt == "parquet" else None,
        "knobs": {"CHUNK_SIZE_ROWS_PREDICTION": rng.choice([10**9, 60, 25])} if rng.random() < 0.5 else {},
        "sched": world.gen_sched(rng, workers, est_steps=3000) if workers > 1 else {"mode": "fifo"},
    }


def scenarios(tier, batch_seed):
    rng = random.Random(derive_seed(PROPERTY, batch_seed, "gen"))
    idx = 0
    round_no = 0
    while True:
        round_no += 1
        n_data = 2 if tier == "quick" else 4
        for d in range(n_data):
            lower = (d + round_no) % 2 == 0
            for enc in ("pm1", "10", "bool"):
                dp = _data_params(rng, enc, lower, big=(tier != "quick"))
                dp["n_files"] = 1 + (d + round_no + ("pm1", "10", "bool").index(enc)) % 2  # half of the data sets: two files
                if dp["n_files"] == 2:
                    dp["size_factors"] = [1.0, rng.choice([1.0, 0.7])]
                    dp["n_spectra"] = max(dp["n_spectra"], rng.randint(200, 250))  # calibration is per (file, fold)
                if (d + round_no + ("pm1", "10", "bool").index(enc)) % 4 in (1, 2):
                    dp["row_order"] = "targets_first"  # with all-equal scores (untrained folds) file order decides tie handling
                if (d + round_no + ("pm1", "10", "bool").index(enc)) % 3 == 0:
                    # the planted best feature is integer-typed with magnitudes above 2**24 (fixed-point with an offset)
                    dp["int_feature"] = {"idx": dp["strong"], "offset": rng.choice([2**30, 10**12]), "scale": rng.choice([20, 500])}
                fold_choices = [3] if tier == "quick" else [2, 3, 4]
                for folds in fold_choices:
                    base = _base(rng, dp, folds, override=False, fmt=rng.choice(["pin", "pin", "parquet"]))
                    for modes in itertools.product(MODES, repeat=folds):
                        scn = clone(base)
                        scn["modes"] = list(modes)
                        scn["seed"] = derive_seed(PROPERTY, batch_seed, idx)
                        # worker count and schedule vary per assignment (the fallback path has its own worker tasks)
                        r3 = random.Random(scn["seed"])
                        w = r3.choice([1, 2, 3, 4])
                        scn["cfg"]["max_workers"] = w
                        scn["sched"] = world.gen_sched(r3, w, est_steps=3000) if w > 1 else {"mode": "fifo"}
                        idx += 1
                        yield scn
                    # fold-aligned variant: one feature is informative only in the rows held out by fold j, so the
                    # folds disagree about the best feature (and its direction) and model j records a much smaller
                    # feat_pass than the others; every fold fails to learn -> the fallback must pick the best of them
                    for j in range(folds):
                        for mode in ("constant", "noise"):
                            scn = clone(base)
                            scn["modes"] = [mode] * folds
                            scn["aligned"] = {"fold": j, "lower": bool((j + idx) % 2)}
                            scn["seed"] = derive_seed(PROPERTY, batch_seed, idx)
                            idx += 1
                            yield scn
                # sampled extras: override on, 5-6 folds, 2 folds
                for _ in range(12 if tier == "quick" else 60):
                    folds = rng.choice([2, 2, 4, 5, 6])
                    base = _base(rng, dp, folds, override=rng.random() < 0.5, fmt=rng.choice(["pin", "parquet"]))
                    scn = clone(base)
                    scn["modes"] = [rng.choice(MODES) for _ in range(folds)]
                    scn["seed"] = derive_seed(PROPERTY, batch_seed, idx)
                    idx += 1
                    yield scn
        if tier == "quick":
            return


def _reference_feat_pass(tables, held, thr):
    """Per fold: (count, feature, desc) of the single feature/direction accepting most genuine targets on the fold's
    training rows (every row not held out by it), or None when some q-value sits on the threshold."""
    cols = tables[0]["meta"]["features"]
    tags = np.concatenate([np.asarray(datagen.col(t, "tag")) for t in tables])
    tg = np.concatenate([np.asarray(datagen.targets_of(t), bool) for t in tables])
    vals = {f: np.concatenate([np.asarray(datagen.col(t, f), float) for t in tables]) for f in cols}
    out = []
    for h in held:
        keep = ~np.isin(tags, np.asarray(h))
        best = None
        unsure = False
        for f in cols:
            for desc in (True, False):
                a, q = refmodel.accepted_targets(vals[f][keep], tg[keep], thr, desc=desc)
                if refmodel.near_threshold(q, thr):
                    unsure = True
                if best is None or a > best[0]:
                    best = (a, f, desc)
        out.append(None if unsure else best)
    return out


def run_scenario(scn, workdir):
    tables = P.build_tables(scn["data"])
    cfg = dict(scn["cfg"])
    modes = scn["modes"]
    thr = cfg["test_fdr"]
    ti = P.tag_index(tables[0])
    probes = {
        "override_on": int(cfg["override"]),
        "enc_" + scn["data"]["label_enc"]: 1,
        "parquet": int(scn["format"] == "parquet"),
        "workers>1": int(cfg["max_workers"] > 1),
        "multi_file": int(len(tables) > 1),
        "integer_best_feature": int(bool(scn["data"].get("int_feature"))),
        "targets_listed_before_decoys": int(scn["data"].get("row_order") == "targets_first"),
    }
    out = {
        "status": "ok",
        "digest": digest([scn["data"], cfg, modes, scn["format"], scn.get("knobs"), scn.get("sched"), scn.get("aligned")]),
        "nontrivial": any(m != "good" for m in modes),
        "probes": probes,
        "faults": {m: modes.count(m) for m in set(modes) if m != "good"},
        "knobs": scn.get("knobs") or {},
        "sample": {"data": scn["data"], "cfg": cfg, "modes": modes, "format": scn["format"], "aligned": scn.get("aligned")},
    }

    def viol(clause, msg, **sig):
        sig.setdefault("enc", scn["data"]["label_enc"])
        out.update(status="violation", clause=clause, message=msg, signature=sig)
        return out

    def uninf(why):
        out.update(status="uninformative", message=why)
        return out

    # ---- pass 1: fault-free, identifies each fold's held-out rows
    estimators.REGISTRY.clear()
    cfg1 = dict(cfg)
    cfg1.update(confidence=False, override=True, max_workers=1)
    p1 = P.run_pipeline(tables, cfg1, workdir, "pass1", fmt=scn["format"], row_group=scn.get("row_group"),
                        sched_desc={"mode": "fifo"}, knobs=None, stop_after="brew")
    if p1.exc is not None:
        if exc_is_domain(p1.exc):
            return uninf(f"fault-free first pass fails: {p1.error}"[:160])
        return viol("run_failed", f"fault-free run with override failed: {p1.error}", **p1.err_sig())
    held = []
    for m in p1.models:
        tags = set()
        for e in getattr(m.estimator, "pred_log_", []):
            if e["phase"] == "predict":
                tags.update(e["tags"])
        held.append(sorted(tags))
    al = scn.get("aligned")
    if al is not None:
        import random as _random

        heldset = set(held[al["fold"] % len(held)])
        r2 = _random.Random(f"aligned|{scn['seed']}")
        for t in tables:
            cols = t["columns"]
            fa, fz, tagc = cols.index("feat0"), cols.index("feat1"), cols.index("tag")
            others = [cols.index(c) for c in cols if c.startswith("feat") and c not in ("feat0", "feat1")]
            for ri, row in enumerate(t["rows"]):
                corr = t["meta"]["truth_correct"][ri]
                v = r2.gauss(4.5 if (corr and row[tagc] in heldset) else 0.0, 1.0)
                row[fa] = float(f"{(-v if al['lower'] else v):.6f}")
                row[fz] = float(f"{r2.gauss(1.2 if corr else 0.0, 1.0):.6f}")
                for o in others:
                    row[o] = float(f"{r2.gauss(0.0, 1.0):.6f}")
        probes["fold_aligned_feature"] = 1
    # ---- in a quarter of the scenarios the very paths of pass 2 were analysed before in this process, holding the same
    # PSMs in the opposite row order (a re-exported file of the same shape): nothing read then may be used now
    stale = scn.get("stale_prior")
    if stale is None:
        stale = random.Random(f"stale|{scn['seed']}").random() < 0.25
    if stale:
        rev = [{"columns": list(t["columns"]), "rows": [list(r) for r in reversed(t["rows"])],
                "meta": dict(t["meta"], truth_correct=list(reversed(t["meta"]["truth_correct"])))} for t in tables]
        cfg0 = dict(cfg1)
        cfg0["override"] = False  # (the comparison with the best feature is part of what the earlier analysis did)
        P.run_pipeline(rev, cfg0, workdir, "pass2", fmt=scn["format"], row_group=scn.get("row_group"),
                       sched_desc={"mode": "fifo"}, knobs=None, stop_after="brew")
        probes["same_paths_analysed_before_with_other_labels"] = 1
    # ---- pass 2: faulty estimators
    estimators.REGISTRY.clear()
    # how much worse than the best feature an "overfit" learner generalises varies: only slightly worse is the
    # interesting region of the comparison between the learned scores and the best feature
    est = estimators.RecordingLDA(tag_idx=ti, mode=list(modes), fold_tags=held, noise_seed=scn["seed"] % 1000,
                                  overfit_noise=(0.5, 0.8, 1.1, 1.5)[(scn["seed"] // 1000) % 4])
    import mokapot

    model = mokapot.Model(est, scaler="as-is", train_fdr=cfg["train_fdr"], max_iter=cfg["max_iter"],
                          override=cfg["override"], rng=cfg["seed"])
    res = P.run_pipeline(tables, cfg, workdir, "pass2", fmt=scn["format"], row_group=scn.get("row_group"),
                         sched_desc=scn.get("sched"), knobs=scn.get("knobs"), models_in=model)
    out["sched"] = res.sched.stats()
    out["sched_digests"] = [world.sched_digest(res.sched)]
    out["schedule"] = world.explicit_schedule(res.sched)
    if res.exc is not None and res.stage == "brew":
        if isinstance(res.exc, RuntimeError):
            probes["explicit_error"] = 1
            return out
        return viol("run_failed", f"brew failed with a non-explicit error: {res.error}", **res.err_sig())
    if res.exc is not None and res.stage == "read_pin":
        return viol("run_failed", f"read_pin failed: {res.error}", **res.err_sig())
    models = res.models
    trained = [m.is_trained for m in models]
    probes["all_untrained"] = int(not any(trained))
    probes["some_untrained"] = int(any(trained) and not all(trained))
    tg = [np.asarray(datagen.targets_of(t), bool) for t in tables]
    scores = res.scores
    descs = res.descs
    if len(descs) != len(tables) or any(len(s) != len(t["rows"]) for s, t in zip(scores, tables)):
        return viol("shape", f"returned {len(descs)} descs / score lengths {[len(s) for s in scores]} for tables "
                    f"{[len(t['rows']) for t in tables]}")
    # which feature column (if any) do the returned scores equal?
    feats = tables[0]["meta"]["features"]
    is_feature = None
    for f in feats:
        if all(np.array_equal(np.asarray(datagen.col(t, f), float), s) for t, s in zip(tables, scores)):
            is_feature = f
    probes["zero_scores_returned"] = int(all(np.all(s == 0) for s in scores))
    acc = 0
    for s, t, d in zip(scores, tg, descs):
        a, q = refmodel.accepted_targets(s, t, thr, desc=bool(d))
        if refmodel.near_threshold(q, thr):
            return uninf("reference q-value within 1e-6 of the threshold")
        acc += a
    cands = [(m.feat_pass, i) for i, m in enumerate(models) if m.feat_pass is not None]
    if not cands:
        return uninf("no model recorded a best feature")
    best = max(c[0] for c in cands)
    # what the best single feature really accepted on each fold's training rows (independent, double precision): the
    # count a model records must be that number, otherwise the comparison below is made against the wrong yardstick
    if not scn["cfg"].get("subset_max_train"):
        ref = _reference_feat_pass(tables, held, cfg["train_fdr"])
        for i, m in enumerate(models):
            if m.feat_pass is None or i >= len(ref) or ref[i] is None:
                continue
            probes["feat_pass_compared_with_reference"] = 1
            if int(m.feat_pass) != ref[i][0]:
                return viol("best_feature_miscounted", f"fold {i}: the model recorded best feature {m.best_feat} (desc={m.desc}) "
                            f"with {int(m.feat_pass)} accepted targets on its training rows, but feature {ref[i][1]} "
                            f"(desc={ref[i][2]}) accepts {ref[i][0]} genuine targets there at {cfg['train_fdr']}",
                            int_feature=bool(scn["data"].get("int_feature")), more=bool(int(m.feat_pass) > ref[i][0]))
    probes["folds_disagree_on_best_feature"] = int(len({(m.best_feat, m.desc) for m in models}) > 1)
    if is_feature is not None:
        probes["fallback_taken"] = 1
        owners = [m for m in models if m.best_feat == is_feature]
        if owners and not any(descs == [m.desc] * len(tables) for m in owners):
            return viol("fallback_direction", f"returned scores are feature {is_feature} but descs={descs} while the models "
                        f"that selected it recorded desc={[m.desc for m in owners]}", lower_better=scn["data"]["lower_better"] is not None)
        if descs and descs[0] is False:
            probes["fallback_desc_false"] = 1
    else:
        probes["model_kept"] = 1
    if ("memorise" in modes or "overfit" in modes) and all(trained):
        probes["memorise_worse_branch"] = 1
    if all(trained) and is_feature is not None:
        probes["all_trained_but_fallback"] = 1
    if not cfg["override"]:
        if acc < best:
            ok = False
            if is_feature is not None:
                for m in models:
                    if m.feat_pass == best and m.best_feat == is_feature and descs == [m.desc] * len(tables):
                        ok = True
            if not ok:
                return viol("silently_worse", f"returned scores accept {acc} genuine targets at {thr} but the best single "
                            f"feature accepted {best} during training, and the returned scores are "
                            f"{'feature ' + is_feature if is_feature else 'not a feature column'} with descs={descs} "
                            f"(modes={modes}, trained={trained}, zero scores={bool(probes['zero_scores_returned'])})",
                            zero_scores=bool(probes["zero_scores_returned"]), fallback=is_feature is not None)
    # ------------------------------------------------ the recorded direction survives saving and loading the models
    if all(trained) and is_feature is not None and not cfg["override"]:
        import pickle

        try:
            models2 = [pickle.loads(pickle.dumps(m)) for m in models]  # what Model.save / load_model do
        except Exception as exc:  # noqa: BLE001
            return viol("run_failed", f"a trained model cannot be pickled: {type(exc).__name__}: {exc}"[:200])
        cfg3 = dict(cfg)
        cfg3.update(confidence=False, max_workers=1)
        r3 = P.run_pipeline(tables, cfg3, workdir, "pass3", fmt=scn["format"], row_group=scn.get("row_group"),
                            sched_desc={"mode": "fifo"}, knobs=scn.get("knobs"), models_in=models2, stop_after="brew")
        probes["saved_and_loaded_models_reapplied"] = 1
        if r3.exc is not None:
            return viol("run_failed", f"brew with the saved-and-loaded models failed: {r3.error}", **r3.err_sig())
        if list(r3.descs) != list(descs) or any(not np.array_equal(a, b) for a, b in zip(r3.scores, scores)):
            return viol("fallback_direction", f"re-applied after a save/load round trip, the same models on the same data give "
                        f"descs={list(r3.descs)} (before: {list(descs)}) and "
                        f"{'other' if any(not np.array_equal(a, b) for a, b in zip(r3.scores, scores)) else 'the same'} scores; "
                        f"recorded desc before/after: {[m.desc for m in models]} / {[m.desc for m in models2]}",
                        lower_better=scn["data"]["lower_better"] is not None, roundtrip=True)
    # ------------------------------------------------ confidence honours the direction
    if all(len(np.unique(s)) < 3 for s in scores):
        return out  # degenerate: all-equal scores; PEP estimation domain
    if res.exc is not None:
        return viol("confidence_failed", f"assign_confidence failed on brew's return value: {res.error}",
                    fallback=is_feature is not None, **res.err_sig())
    probes["confidence_checked"] = 1
    # a second report made from the same (scores, descs) objects must equal the first; the objects must be unchanged
    for name, raw in res.files.items():
        if res.files2.get(name) != raw:
            return viol("confidence_repeat_differs", f"a second assign_confidence call with the same (scores, descs) objects "
                        f"wrote a different {name} ({len((res.files2.get(name) or b'').splitlines())} vs {len(raw.splitlines())} lines); "
                        f"descs={descs}", desc=bool(descs[0]))
    for s_before, s_after in zip(scores, res.raw_scores):
        if not np.array_equal(s_before, np.asarray(s_after, dtype=float).reshape(-1), equal_nan=True):
            return viol("arguments_mutated", "assign_confidence changed the score arrays it was given", desc=bool(descs[0]))
    probes["confidence_repeated"] = 1
    prefixes = [None] if len(tables) == 1 else [f"f{i}" for i in range(len(tables))]
    from .c05 import competing_ties

    rollup = bool(cfg["conf"].get("rollup"))
    for fi, (t, s, d) in enumerate(zip(tables, scores, descs)):
        sign = 1.0 if d else -1.0
        recs = refmodel.table_records(t, sign * s)
        by_id = {r["PSMId"]: r for r in recs}
        levels = refmodel.strict_competition(recs, True, rollup, ())
        tied = competing_ties([t], [s])
        if tied:
            # rows with exactly equal values compete for a spectrum or a peptide (an integer feature returned as the
            # score): any tied winner is acceptable, so only the PSM level is checked, and tie-aware
            levels = {"psms": levels["psms"]}
            probes["tied_values_compete"] = 1
        si = [t["columns"].index(c) for c in t["meta"]["spectrum"]]
        spec_of = {r[t["columns"].index("SpecId")]: tuple(r[j] for j in si) for r in t["rows"]}
        best_of = {}
        for r in recs:
            k = spec_of[r["PSMId"]]
            best_of[k] = max(best_of.get(k, -np.inf), r["score"])
        if not d:
            probes["confidence_desc_false"] = 1
        for level, exp in levels.items():
            sc = np.array([r["score"] for r in exp])
            tt = np.array([r["target"] for r in exp])
            q = refmodel.tdc_ref(sc, tt, desc=True)
            near = refmodel.near_threshold(q, thr)
            want = int(np.sum((q <= thr) & tt))
            p = f"{prefixes[fi]}." if prefixes[fi] else ""
            name = f"{p}targets.{level}"
            if name not in res.files:
                return viol("confidence_files", f"missing {name}; have {sorted(res.files)}")
            header, rows = P.parse_result_file(res.files[name])
            h = {c: i for i, c in enumerate(header)}
            got = sum(1 for r in rows if float(r[h["q-value"]]) <= thr)
            exp_ids = {r["PSMId"] for r in exp if r["target"]}
            got_ids = {r[h["PSMId"]] for r in rows}
            if level != "psms":
                probes["confidence_rollup_level_checked"] = 1
            if tied:
                worse = [i for i in got_ids if i in by_id and by_id[i]["score"] != best_of[spec_of[i]]]
                dup = len({spec_of[i] for i in got_ids if i in spec_of}) != len(got_ids)
                if worse or dup or not got_ids <= set(by_id):
                    return viol("confidence_direction", f"{name}: with desc={d} (tied values present) {len(worse)} retained PSMs do "
                                f"not carry the best value of their spectrum, e.g. {sorted(worse)[:4]}; duplicates={dup}",
                                desc=bool(d), what="competition", level=level)
            elif got_ids != exp_ids:
                wrong = sorted(got_ids - exp_ids)[:4]
                unit = "spectrum" if level == "psms" else "peptide"
                return viol("confidence_direction", f"{name}: with desc={d} the retained PSM of a {unit} must be the "
                            f"{'highest' if d else 'lowest'}-valued one; {len(got_ids - exp_ids)} retained PSMs are not, e.g. {wrong}",
                            desc=bool(d), what="competition", level=level)
            for r in rows:
                src = by_id[r[h["PSMId"]]]
                if not np.isclose(float(r[h["score"]]), sign * src["score"], rtol=1e-9, atol=1e-12):
                    return viol("confidence_score_value", f"{name}: PSM {src['PSMId']} is written with score {r[h['score']]} but "
                                f"brew returned {sign * src['score']!r} for it (desc={d})", desc=bool(d), level=level)
            sc_file = [float(r[h["score"]]) for r in rows]
            if any((b > a) if d else (b < a) for a, b in zip(sc_file, sc_file[1:])):
                return viol("confidence_direction", f"{name}: rows are not ordered best-first for desc={d}", desc=bool(d),
                            what="order", level=level)
            if not near and not tied and got != want:
                return viol("confidence_direction", f"{name}: {got} targets at q<={thr} with desc={d}, ranking in the returned "
                            f"direction gives {want}", desc=bool(d), what="count", level=level)
    return out


def shrink_candidates(scn):
    if scn.get("stale_prior") is not False:
        c = clone(scn); c["stale_prior"] = False; yield c
    cfg, dp = scn["cfg"], scn["data"]
    for i, m in enumerate(scn["modes"]):
        if m != "good":
            c = clone(scn); c["modes"][i] = "good"; yield c
    if cfg["max_workers"] > 1:
        c = clone(scn); c["cfg"]["max_workers"] = 1; c["sched"] = {"mode": "fifo"}; yield c
    if scn["format"] != "pin":
        c = clone(scn); c["format"] = "pin"; c["row_group"] = None; yield c
    if scn.get("knobs"):
        c = clone(scn); c["knobs"] = {}; yield c
    if dp["n_files"] > 1:
        c = clone(scn); c["data"]["n_files"] = 1; yield c
    if cfg["folds"] > 2 and len(scn["modes"]) > 2:
        c = clone(scn); c["cfg"]["folds"] -= 1; c["modes"] = c["modes"][:-1]; yield c
    if cfg["max_iter"] > 1:
        c = clone(scn); c["cfg"]["max_iter"] = 1; yield c
    if dp["n_spectra"] > 100:
        c = clone(scn); c["data"]["n_spectra"] = 100; yield c
    if dp["max_per_spectrum"] > 1:
        c = clone(scn); c["data"]["max_per_spectrum"] = 1; yield c
    if dp["n_features"] > 2:
        c = clone(scn); c["data"]["n_features"] -= 1
        c["data"]["strong"] = min(c["data"]["strong"], c["data"]["n_features"] - 1)
        if c["data"]["lower_better"] is not None:
            c["data"]["lower_better"] = c["data"]["strong"]
        yield c
