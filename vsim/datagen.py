"""Seeded data generators: PSM tables (PIN text / Parquet), FASTA structures.

A table is a plain dict (JSON-able): {"columns": [...], "rows": [[...], ...],
"meta": {...}} so that it can be embedded in a scenario/replay file or be
re-generated from its parameters.
"""

from __future__ import annotations

import random
import string

AA = "ACDEFGHILMNPQSTVWY"  # no K/R: tokens end in K, so one token = one tryptic peptide

THRESHOLDS = (0.0531, 0.1037, 0.2113, 0.3071)


def _rand_word(rng, n, alphabet=AA):
    return "".join(rng.choice(alphabet) for _ in range(n))


def _round6(x):
    return float(f"{x:.6f}")


def gen_table(
    rng,
    *,
    n_spectra=80,
    max_per_spectrum=3,
    n_features=3,
    spec_extra=(),  # subset of ("filename", "ret_time", "ExpMass")
    no_scan_only=False,
    calcmass=False,
    label_enc="pm1",  # pm1 | 10 | bool
    level_cols=(),  # subset of ("ModifiedPeptide", "Precursor", "PeptideGroup")
    frac_correct=0.45,
    shift=3.5,
    tag=True,
    lower_better=None,  # index of a feature that is lower-is-better (planted strong)
    strong=None,  # index of a planted very strong feature
    file_id=0,
    pep_pool=None,
    dup_scan_frac=0.0,
    id_prefix="t",
):
    """Generate one PSM table.

    Spectra: n_spectra distinct spectrum keys; each has 1..max_per_spectrum
    PSMs.  A PSM is a correct target (features shifted up), an incorrect target
    or a decoy.  Rows are emitted in shuffled order (PSMs of one spectrum are
    not adjacent).
    """
    spec_extra = [c for c in ("filename", "ret_time", "ExpMass") if c in spec_extra]
    n_pep_t = pep_pool or max(5, int(n_spectra * 0.6))
    n_pep_d = n_pep_t
    tpeps = []
    dpeps = []
    seen = set()
    while len(tpeps) < n_pep_t or len(dpeps) < n_pep_d:
        w = _rand_word(rng, rng.randint(6, 9)) + "K"
        if w in seen or w == w[::-1]:
            continue
        seen.add(w)
        (tpeps if len(tpeps) < n_pep_t else dpeps).append(w)

    rows = []
    scans = []
    base_scan = 1000 + file_id * 100000
    for s in range(n_spectra):
        scan = base_scan + s
        if dup_scan_frac and s > 0 and rng.random() < dup_scan_frac and "ExpMass" in spec_extra:
            scan = scans[rng.randrange(len(scans))]  # same scan, other mass
        scans.append(scan)
        key = {
            "ScanNr": scan,
            "filename": f"run{file_id}_{s % 3}.raw",
            "ret_time": _round6(60.0 + s * 1.25),
            "ExpMass": _round6(800.0 + s * 3.0625 + rng.randint(0, 3)),
        }
        k = rng.randint(1, max_per_spectrum)
        # the first PSM of a spectrum may be correct; the others are random matches
        for j in range(k):
            correct = j == 0 and rng.random() < frac_correct
            is_target = True if correct else (rng.random() < 0.5)
            rows.append({"key": key, "correct": correct, "target": is_target})
    rng.shuffle(rows)

    feat_names = [f"feat{i}" for i in range(n_features)]
    columns = ["SpecId", "Label", "ScanNr"]
    if "ExpMass" in spec_extra:
        columns.append("ExpMass")
    if calcmass:
        columns.append("CalcMass")
    if "filename" in spec_extra:
        columns.append("filename")
    if "ret_time" in spec_extra:
        columns.append("ret_time")
    columns += feat_names
    if tag:
        columns.append("tag")
    level_cols = [c for c in ("ModifiedPeptide", "Precursor", "PeptideGroup") if c in level_cols]
    columns += level_cols
    columns += ["Peptide", "Proteins"]

    out_rows = []
    truth = []
    for i, r in enumerate(rows):
        rid = file_id * 1_000_000 + i
        if r["target"]:
            pep = tpeps[rng.randrange(len(tpeps))]
            prot = f"prot_{tpeps.index(pep) % 17}"
        else:
            pep = dpeps[rng.randrange(len(dpeps))]
            prot = f"decoy_prot_{dpeps.index(pep) % 17}"
        if label_enc == "pm1":
            lab = 1 if r["target"] else -1
        elif label_enc == "10":
            lab = 1 if r["target"] else 0
        else:
            lab = bool(r["target"])
        feats = []
        for f in range(n_features):
            mu = shift * (0.6 + 0.4 * ((f * 7) % 3) / 2.0) if r["correct"] else 0.0
            v = rng.gauss(mu, 1.0)
            if strong is not None and f == strong:
                v = rng.gauss(3.0 * shift if r["correct"] else 0.0, 1.0)
            if lower_better is not None and f == lower_better:
                v = -v
            feats.append(_round6(v))
        charge = 2 + (i % 3)
        # unmodified peptides carry the same string at the peptide and the modified-peptide level
        modpep = pep if i % 3 == 0 else f"{pep}[{i % 2}]"
        vals = {
            "SpecId": f"{id_prefix}_{file_id}_{i}",
            "Label": lab,
            "ScanNr": r["key"]["ScanNr"],
            "ExpMass": r["key"]["ExpMass"],
            "CalcMass": _round6(r["key"]["ExpMass"] - 0.001 * (i % 7)),
            "filename": r["key"]["filename"],
            "ret_time": r["key"]["ret_time"],
            "tag": rid,
            "ModifiedPeptide": modpep,
            "Precursor": f"{modpep}/{charge}",
            "PeptideGroup": f"{'grp' if r['target'] else 'dgrp'}{hash_stable(pep) % max(6, n_pep_t // 2)}",
            "Peptide": pep,
            "Proteins": prot,
        }
        for n, v in zip(feat_names, feats):
            vals[n] = v
        out_rows.append([vals[c] for c in columns])
        truth.append({"correct": r["correct"], "target": r["target"]})

    meta = {
        "specid": "SpecId",
        "label": "Label",
        "scan": "ScanNr",
        "peptide": "Peptide",
        "proteins": "Proteins",
        "features": feat_names + (["tag"] if tag else []),
        "spectrum": [c for c in ("filename", "ScanNr", "ret_time", "ExpMass") if c == "ScanNr" or c in spec_extra],
        "level_cols": level_cols,
        "label_enc": label_enc,
        "file_id": file_id,
        "n_rows": len(out_rows),
        "tag": "tag" if tag else None,
        "truth_correct": [t["correct"] for t in truth],
    }
    return {"columns": columns, "rows": out_rows, "meta": meta}


# Pairs of peptide-like strings whose 32-bit checksums collide (crc32 / adler32 of the string itself and of
# str([string]), the key format of mokapot's "seen" sets): distinct entities that a hashed key would merge.
HASH_TWINS = [["NRASVLFMNK", "TLDQLPMMLK"], ["NGELWQRSHEK", "PFNCYRMDTIK"], ["VEDVYFSLCMHTK", "NYNIGPQHECPYK"], ["LHCYLGRTFMK", "VLDARIHTMQK"], ["NSRISPMPGCEYK", "YQGWQCHENLMTK"], ["GWRNRPQCWFTK", "TEWIRQQHRWGK"], ["IAIFHPNYDK", "TGNTAGLRPQQVK"], ["VSWDPAAAAK", "NEDCSPEGRAK"], ["WIDCSFVDVCSTK", "YRIGYRMQDWPYLK"], ["HESAPMPTK", "DVLCIRSPSGHQK"], ["QGGDPDAYTEK", "SQWTCYRMWAPLPK"], ["SFNMVCYMK", "PEMFGLTIAWK"]]


def plant_hash_twins(table, n_pairs, rng):
    """Rename 2*n_pairs target peptides (all their occurrences, also inside the modified-peptide / precursor columns)
    to colliding twins."""
    cols = table["columns"]
    pi = cols.index("Peptide")
    li = cols.index("Label")
    peps = []
    for r in table["rows"]:
        if (r[li] is True or r[li] == 1) and r[pi] not in peps:
            peps.append(r[pi])
    pairs = rng.sample(HASH_TWINS, min(n_pairs, len(HASH_TWINS), len(peps) // 2))
    ren = {}
    for k, (a, b) in enumerate(pairs):
        ren[peps[2 * k]], ren[peps[2 * k + 1]] = a, b
    sc = [cols.index(c) for c in ("Peptide", "ModifiedPeptide", "Precursor") if c in cols]
    for r in table["rows"]:
        old = r[pi]
        if old in ren:
            for j in sc:
                r[j] = r[j].replace(old, ren[old])
    return table


def plant_sibling_groups(table, rng, n_swaps=3):
    """Make the PeptideGroup column a *sibling* of the peptide level: as many groups as peptides (group k = peptide k),
    except that for a few pairs of peptides one PSM of each swaps its group with the other.  Both levels then keep the same
    number of rows but not the same rows - equal counts do not mean equal levels."""
    cols = table["columns"]
    if "PeptideGroup" not in cols:
        return table
    pi, gi, li = cols.index("Peptide"), cols.index("PeptideGroup"), cols.index("Label")
    idx = {}
    by_pep = {}
    for ri, r in enumerate(table["rows"]):
        is_t = r[li] is True or r[li] == 1
        k = idx.setdefault((is_t, r[pi]), len(idx))
        r[gi] = f"{'sg' if is_t else 'dsg'}{k}"
        by_pep.setdefault((is_t, r[pi]), []).append(ri)
    for is_t in (True, False):
        multi = [k for k, v in by_pep.items() if k[0] == is_t and len(v) >= 2]
        rng.shuffle(multi)
        for a, b in list(zip(multi[0::2], multi[1::2]))[:n_swaps]:
            ra, rb = by_pep[a][0], by_pep[b][0]
            table["rows"][ra][gi], table["rows"][rb][gi] = table["rows"][rb][gi], table["rows"][ra][gi]
    return table


def hash_stable(s):
    h = 0
    for ch in s:
        h = (h * 131 + ord(ch)) % 1000003
    return h


def col(table, name):
    i = table["columns"].index(name)
    return [r[i] for r in table["rows"]]


def targets_of(table):
    lab = col(table, table["meta"]["label"])
    return [bool(v is True or v == 1) for v in lab]


def fmt_cell(v):
    if isinstance(v, bool):
        return "True" if v else "False"
    if isinstance(v, float):
        return repr(v)
    if v is None:
        return ""
    return str(v)


def write_pin(path, table, na_token="", g_format=False):
    """na_token: how a missing value is spelled (empty field, or what R / spreadsheets write: NA, N/A, null, NaN ...).
    g_format: whole-number floats are written without a decimal point ("3", as C's %g and many search engines do)."""
    def cell(v):
        if v is None:
            return na_token
        if g_format and isinstance(v, float) and v == int(v) and abs(v) < 1e15:
            return str(int(v))
        return fmt_cell(v)

    with open(path, "w", newline="") as fh:
        fh.write("\t".join(table["columns"]) + "\n")
        for r in table["rows"]:
            fh.write("\t".join(cell(v) for v in r) + "\n")


def with_range_index_metadata(tbl, start):
    """The same Arrow table carrying the metadata pandas stores when a frame whose RangeIndex starts at `start` is
    written (`df.iloc[start:].to_parquet(...)`)."""
    import json

    import pyarrow as pa

    pdf = tbl.slice(0, 0).to_pandas()
    meta = json.loads(pa.Table.from_pandas(pdf).schema.metadata[b"pandas"].decode())
    meta["index_columns"] = [{"kind": "range", "name": None, "start": int(start), "stop": int(start) + tbl.num_rows, "step": 1}]
    md = dict(tbl.schema.metadata or {})
    md[b"pandas"] = json.dumps(meta).encode()
    return tbl.replace_schema_metadata(md)


def write_parquet(path, table, row_group_size=None, dict_strings=False, index_start=0, nan_values=False):
    """dict_strings: string columns are stored dictionary-typed (what pandas writes for a Categorical column and what
    many Arrow-based tools write for low-cardinality strings).  nan_values: a missing value of a floating-point column
    is stored as the float NaN, not as a Parquet null (what pyarrow writes from numpy arrays, and polars / Spark write;
    pandas reads both back as NaN, but the file's null counts differ)."""
    import pyarrow as pa
    import pyarrow.parquet as pq

    arrays = {}
    for i, c in enumerate(table["columns"]):
        vals = [r[i] for r in table["rows"]]
        nn = [v for v in vals if v is not None]
        if nn and all(isinstance(v, bool) for v in nn):
            typ = pa.bool_()
        elif nn and all(isinstance(v, int) and not isinstance(v, bool) for v in nn):
            typ = pa.int64()
        elif nn and all(isinstance(v, (int, float)) and not isinstance(v, bool) for v in nn):
            typ = pa.float64()
            vals = [(float("nan") if nan_values else None) if v is None else float(v) for v in vals]
        else:
            typ = pa.string()
            vals = [None if v is None else str(v) for v in vals]
        arrays[c] = pa.array(vals, type=typ)
        if dict_strings and typ == pa.string() and len(set(vals)) <= max(4, len(vals) // 10):
            arrays[c] = arrays[c].dictionary_encode()  # low-cardinality strings only (file names, not identifiers)
    tbl = pa.table(arrays)
    if index_start:
        tbl = with_range_index_metadata(tbl, index_start)
    kw = {}
    if row_group_size:
        kw["row_group_size"] = int(row_group_size)
    pq.write_table(tbl, path, **kw)


def write_table(path, table, row_group_size=None, dict_strings=False, index_start=0, na_token="", g_format=False,
                nan_values=False):
    if str(path).endswith(".parquet"):
        write_parquet(path, table, row_group_size, dict_strings=dict_strings, index_start=index_start, nan_values=nan_values)
    else:
        write_pin(path, table, na_token=na_token, g_format=g_format)


# --------------------------------------------------------------------- knobs
def knob_value(rng, n, extra=()):
    """A chunk size biased towards the boundary cases of a stream of n rows."""
    n = max(1, n)
    pool = [1, 2, 3, max(1, n - 1), n, n + 1, max(1, n // 2), max(1, n // 3)]
    pool += list(extra)
    # sizes that leave a one-row last chunk
    for c in (2, 3, 5, 7, 11):
        if n > c and n % c == 1:
            pool.append(c)
    if n > 2:
        pool.append(n - 1)  # leaves exactly one row
    r = rng.random()
    if r < 0.6:
        return max(1, rng.choice(pool))
    if r < 0.9:
        return rng.randint(1, n + 1)
    return 10**9


# --------------------------------------------------------------------- FASTA
def gen_incidence(rng, n_prot=None, n_pep=None, palindromes=0.0):
    """A protein x peptide incidence structure with the interesting shapes:
    chains of subsets, a protein inside two others, equal sets, empty proteins.
    Returns {"proteins": {name: [token,...]}} with tokens of the form X{6,8}K."""
    n_prot = n_prot or rng.randint(3, 12)
    n_pep = n_pep or rng.randint(3, 12)
    toks = []
    seen = set()
    while len(toks) < n_pep:
        if rng.random() < palindromes:
            half = _rand_word(rng, rng.randint(3, 4))
            w = half + half[::-1] + "K"  # interior is a palindrome: the decoy token equals the target token
        else:
            w = _rand_word(rng, rng.randint(6, 8)) + "K"
            if w[:-1] == w[:-1][::-1]:
                continue
        if w in seen:
            continue
        seen.add(w)
        toks.append(w)
    prots = {}
    names = [f"P{i:02d}" for i in range(n_prot)]
    for i, name in enumerate(names):
        r = rng.random()
        if i > 0 and r < 0.25:
            # subset of an earlier protein (chain of subsets)
            base = prots[rng.choice(names[:i])]
            k = rng.randint(0, len(base))
            peps = rng.sample(base, k) if base else []
        elif i > 1 and r < 0.4:
            # intersection of two earlier proteins -> contained in both
            a, b = rng.sample(names[:i], 2)
            peps = [p for p in prots[a] if p in prots[b]]
        elif i > 0 and r < 0.5:
            peps = list(prots[rng.choice(names[:i])])  # equal set
        elif r < 0.55:
            peps = []
        else:
            k = rng.randint(1, min(5, n_pep))
            peps = rng.sample(toks, k)
        prots[name] = sorted(set(peps), key=toks.index)
    # sequence length is not a proxy for the number of peptides: tandem repeats (the peptide set does not grow) and long
    # stretches without a cleavage site (longer than any admissible peptide)
    pad = {}
    for name in names:
        r = rng.random()
        if prots[name] and r < 0.2:
            pad[name] = {"repeat": rng.choice([1, 2])}
        elif prots[name] and r < 0.35:
            pad[name] = {"tail": rng.choice([55, 80])}
    return {"proteins": prots, "tokens": toks, "pad": pad}


def protein_seq(struct, name, decoy=False):
    """The amino-acid sequence of entry `name` (or of its decoy) of an incidence structure."""
    toks = struct["proteins"][name]
    seq = "".join(decoy_token(t) for t in toks) if decoy else "".join(toks)
    pad = (struct.get("pad") or {}).get(name) or {}
    if pad.get("repeat"):
        seq = seq * (1 + pad["repeat"])
    if pad.get("tail"):
        seq = seq + "G" * pad["tail"] + "K"
    return seq


def decoy_token(tok):
    """Reverse the interior of a token (keeps the terminal K)."""
    return tok[:-1][::-1] + "K"


def render_fasta(struct, order=None, decoy_prefix="decoy_", with_decoys=True, width=None):
    names = list(struct["proteins"])
    if order is not None:
        names = [names[i] for i in order]
    entries = []
    for n in names:
        entries.append((n, protein_seq(struct, n)))
    if with_decoys:
        for n in names:
            entries.append((decoy_prefix + n, protein_seq(struct, n, decoy=True)))
    return entries


_DESCRIPTIONS = ["some description", "", "Beta-(1->3)-glucan export protein OS=Homo sapiens OX=9606", "hypothetical protein",
                 "A>B transition factor >fragment", "some description", "sp|Q00000|X_Y 5'->3' exonuclease GN=exo PE=1 SV=2"]


def write_fasta(path, entries, width=60):
    with open(path, "w") as fh:
        for name, seq in entries:
            # free-text descriptions as found in real databases, some with the entry marker inside ("(1->3)-glucan")
            desc = _DESCRIPTIONS[hash_stable(name) % len(_DESCRIPTIONS)]
            fh.write(f">{name}{' ' + desc if desc else ''}\n")
            for i in range(0, len(seq), width):
                fh.write(seq[i : i + width] + "\n")
            if not seq:
                pass


_ = string  # keep import (used by callers for alphabets)
