"""World A (+B): read_pin -> brew -> (assign_confidence) on generated files."""

from __future__ import annotations

import os
import random
from pathlib import Path

import numpy as np

from .. import datagen, estimators, world
from ..util import exc_site, short_msg


def gen_data_params(rng, *, n_files=None, small=False, tie_free=True, level_cols_p=0.2, allow_scan_only=True):
    n_files = n_files or rng.choice([1, 1, 1, 2, 3])
    n_spec = rng.randint(90, 150) if small else rng.randint(100, 220)
    extras = [c for c in ("filename", "ret_time", "ExpMass") if rng.random() < 0.45]
    if not extras and not allow_scan_only:
        extras = [rng.choice(["filename", "ret_time", "ExpMass"])]
    return {
        "data_seed": rng.getrandbits(32),
        "n_files": n_files,
        "n_spectra": max(70, int(n_spec / n_files * 1.5)) if n_files > 1 else n_spec,
        "max_per_spectrum": rng.choice([1, 2, 3, 4]),
        "n_features": rng.randint(2, 6),
        "spec_extra": extras,
        "calcmass": rng.random() < 0.3,
        "label_enc": rng.choice(["pm1", "10", "bool"]),
        "level_cols": [c for c in ("ModifiedPeptide", "Precursor", "PeptideGroup") if rng.random() < level_cols_p],
        "frac_correct": rng.choice([0.4, 0.5, 0.6]),
        "shift": rng.choice([3.0, 3.5, 4.5]),
        "dup_scan_frac": rng.choice([0.0, 0.0, 0.15]),
        "lower_better": None,
        "strong": None,
        "nan_feature": rng.choice([0, 0, 0, 1, 3]),
        "top_decoys": 0,  # set by C08 only: decoys that outscore every target (costs acceptance at small sizes)
        # jointly modelled files of unequal size (a per-file share of a training cap can exceed a small file)
        "size_factors": [1.0] + [rng.choice([1.0, 0.6, 0.4]) for _ in range(n_files - 1)] if n_files > 1 else None,
    }


def build_tables(dp):
    out = []
    for f in range(dp["n_files"]):
        rng = random.Random(f"{dp['data_seed']}|{f}")
        fac = (dp.get("size_factors") or [1.0] * dp["n_files"])[f] if f < len(dp.get("size_factors") or []) else 1.0
        t = datagen.gen_table(
            rng,
            n_spectra=max(45, int(dp["n_spectra"] * fac)),
            max_per_spectrum=dp["max_per_spectrum"],
            n_features=dp["n_features"],
            spec_extra=dp["spec_extra"],
            calcmass=dp.get("calcmass", False),
            label_enc=dp["label_enc"],
            level_cols=dp.get("level_cols", ()),
            frac_correct=dp.get("frac_correct", 0.45),
            shift=dp.get("shift", 3.5),
            tag=True,
            lower_better=dp.get("lower_better"),
            strong=dp.get("strong"),
            file_id=f,
            dup_scan_frac=dp.get("dup_scan_frac", 0.0),
        )
        if dp.get("top_decoys"):
            # a few decoys that outscore every target (the best-ranked entries of a level are then decoys)
            r3 = random.Random(f"topdecoy|{dp['data_seed']}|{f}")
            cols = t["columns"]
            li = cols.index("Label")
            fcols = [cols.index(c) for c in cols if c.startswith("feat")]
            decoys = [ri for ri, row in enumerate(t["rows"]) if not (row[li] is True or row[li] == 1)]
            for k, ri in enumerate(r3.sample(decoys, min(len(decoys), dp["top_decoys"]))):
                for ci in fcols:
                    t["rows"][ri][ci] = float(f"{9.0 + k + r3.random():.6f}")
        if dp.get("row_order") == "targets_first":
            # the common layout "all targets, then the decoys appended" (stable: relative order inside each class kept)
            li = t["columns"].index("Label")
            order = sorted(range(len(t["rows"])), key=lambda i: 0 if (t["rows"][i][li] is True or t["rows"][i][li] == 1) else 1)
            t["rows"] = [t["rows"][i] for i in order]
            t["meta"]["truth_correct"] = [t["meta"]["truth_correct"][i] for i in order]
        if dp.get("whole_head"):
            # a feature whose first rows hold whole numbers (a text reader typing a column from its first chunk sees ints)
            wh = dp["whole_head"]
            ci = t["columns"].index(f"feat{wh['idx'] % dp['n_features']}")
            used = set()
            for row in t["rows"][: wh["rows"]]:
                v = float(round(row[ci]))
                while v in used:  # (no exact ties among them: ties make a scenario uninformative)
                    v += 1.0
                used.add(v)
                row[ci] = v
        if dp.get("nan_key") and "ExpMass" in t["columns"]:
            # spectra whose numeric key column (the measured mass) is missing: all their PSMs still form one spectrum
            r4 = random.Random(f"nankey|{dp['data_seed']}|{f}")
            cols = t["columns"]
            sc, mc = cols.index("ScanNr"), cols.index("ExpMass")
            keys = sorted({(row[sc], row[mc]) for row in t["rows"]})
            chosen = set(r4.sample(keys, max(1, int(len(keys) * dp["nan_key"]))))
            scans_hit = {k[0] for k in chosen}
            for row in t["rows"]:
                # (every mass variant of a chosen scan loses its mass, so that no two distinct spectra become one by accident)
                if row[sc] in scans_hit:
                    row[mc] = None
        if dp.get("whole_key_tail"):
            # a spectrum with >= 2 PSMs whose numeric key columns hold whole numbers (written without a decimal point in
            # %g-style text); one of its PSMs becomes the last row of the file, so that a reader typing each chunk on its
            # own sees integers in a one-row last chunk and floats elsewhere
            cols = t["columns"]
            kc = [cols.index(c) for c in ("ExpMass", "ret_time") if c in t["meta"]["spectrum"]]
            if kc:
                si = [cols.index(c) for c in t["meta"]["spectrum"]]
                groups = {}
                for ri, row in enumerate(t["rows"]):
                    groups.setdefault(tuple(row[j] for j in si), []).append(ri)
                multi = [v for v in groups.values() if len(v) >= 2 and all(t["rows"][v[0]][j] is not None for j in kc)]
                if multi:
                    g = multi[dp["whole_key_tail"] % len(multi)]
                    taken = {tuple(row[j] for j in kc) for row in t["rows"]}
                    taken = {k for k in taken if None not in k}
                    new = [float(int(t["rows"][g[0]][j]) + 5000 + 7 * f) for j in kc]
                    while tuple(new) in taken:
                        new = [v + 1.0 for v in new]
                    for ri in g:
                        for j, v in zip(kc, new):
                            t["rows"][ri][j] = v
                    last = len(t["rows"]) - 1
                    a = g[-1]
                    t["rows"][a], t["rows"][last] = t["rows"][last], t["rows"][a]
                    tc = t["meta"]["truth_correct"]
                    tc[a], tc[last] = tc[last], tc[a]
        if dp.get("int_feature"):
            # an integer-typed feature (whole numbers in text, int64 in Parquet) whose magnitudes exceed 2**24: distinct
            # values that single-precision arithmetic cannot tell apart
            spec = dp["int_feature"]
            ci = t["columns"].index(f"feat{spec['idx']}")
            for row in t["rows"]:
                row[ci] = int(spec["offset"] + round(spec["scale"] * row[ci]))
        if dp.get("nan_feature"):
            # a feature with a few missing values, placed after the tag column so that the tag's position among the
            # parsed features does not depend on whether it is dropped; a faithful parse always drops it
            r2 = random.Random(f"nan|{dp['data_seed']}|{f}")
            n = len(t["rows"])
            miss = set(r2.sample(range(n), min(n, dp["nan_feature"])))
            ci = t["columns"].index("tag") + 1
            t["columns"].insert(ci, "fnan")
            for ri, row in enumerate(t["rows"]):
                row.insert(ci, None if ri in miss else float(f"{r2.gauss(0.0, 1.0):.6f}"))
        out.append(t)
    return out


def tag_index(table):
    """Index of the tag column among the feature columns (file order)."""
    return table["meta"]["features"].index("tag")


def has_feature_ties(tables):
    for t in tables:
        for f in t["meta"]["features"]:
            v = datagen.col(t, f)
            if len(set(v)) != len(v):
                return True
    return False


class PipelineResult:
    def __init__(self):
        self.error = None
        self.exc = None
        self.stage = None
        self.parsed = None
        self.scores = None
        self.raw_scores = None
        self.proteins = None
        self.descs = None
        self.models = None
        self.files = {}
        self.files2 = {}
        self.listing = []
        self.sched = None
        self.fs = None
        self.paths = None
        self.cli_argv = None
        self.cli_capture = None

    def err_sig(self):
        if self.exc is None:
            return None
        return {"etype": type(self.exc).__name__, "site": exc_site(self.exc), "stage": self.stage}


def run_pipeline(tables, cfg, workdir, name, fmt="pin", row_group=None, sched_desc=None, knobs=None,
                 glob_seed=None, models_in=None, stop_after=None, dict_strings=False, index_start=0):
    """Execute the pipeline once; never raises for mokapot errors (recorded)."""
    import mokapot

    res = PipelineResult()
    root = Path(workdir) / name
    os.makedirs(root, exist_ok=True)
    dest = root / "out"
    os.makedirs(dest, exist_ok=True)
    ext = ".parquet" if fmt == "parquet" else ".pin"
    paths = []
    for i, t in enumerate(tables):
        p = root / f"file{i}{ext}"
        world.materialise(t, p, fmt, row_group, dict_strings=dict_strings, index_start=index_start,
                          g_format=bool(cfg.get("g_format")), nan_values=bool(cfg.get("parquet_nan_values")))
        paths.append(p)
    res.paths = paths
    ti = tag_index(tables[0])
    model = models_in
    if model is None:
        model = estimators.make_model(
            cfg["learner"], ti, cfg["train_fdr"], cfg["max_iter"], cfg["seed"], override=cfg.get("override", False),
            **cfg.get("est_kw", {}),
        )
    if cfg.get("via_cli"):
        return _run_cli(res, tables, paths, cfg, dest, ti, sched_desc, knobs, glob_seed, stop_after)
    with world.sim_env(sched_desc, knobs, glob_seed=glob_seed) as (sch, fs):
        res.sched, res.fs = sch, fs
        try:
            res.stage = "read_pin"
            datasets = mokapot.read_pin(paths, max_workers=cfg["max_workers"])
            res.parsed = [
                {
                    "feature_columns": list(d.feature_columns),
                    "spectrum_columns": list(d.spectrum_columns),
                    "metadata_columns": list(d.metadata_columns),
                    "level_columns": list(d.level_columns),
                    "n": len(d.spectra_dataframe),
                    "targets": d.spectra_dataframe[d.target_column].astype(bool).tolist(),
                }
                for d in datasets
            ]
            if stop_after == "read_pin":
                return res
            res.stage = "brew"
            psms, models, scores, descs = mokapot.brew(
                datasets,
                model=model,
                test_fdr=cfg["test_fdr"],
                folds=cfg["folds"],
                max_workers=cfg["max_workers"],
                rng=cfg["seed"],
                subset_max_train=cfg.get("subset_max_train"),
                ensemble=cfg.get("ensemble", False),
            )
            res.models = list(models)
            res.raw_scores = list(scores)
            res.scores = [np.array(s, dtype=float, copy=True).reshape(-1) for s in scores]
            res.descs = list(descs)
            if stop_after == "brew" or not cfg.get("confidence"):
                return res
            proteins = None
            if cfg.get("fasta_path"):
                res.stage = "read_fasta"
                proteins = mokapot.read_fasta(cfg["fasta_path"], **cfg.get("fasta_kw", {}))
                res.proteins = proteins
            res.stage = "assign_confidence"
            conf = cfg.get("conf", {})
            prefixes = conf.get("prefixes")
            if prefixes is None:
                prefixes = [None] if len(paths) == 1 else [f"f{i}" for i in range(len(paths))]
            conf_scores = scores if cfg.get("raw_conf_scores") else [np.asarray(s, dtype=float).reshape(-1) for s in scores]
            conf_descs = descs
            if cfg.get("quantise_scores") is not None:
                # limited-precision scores: exact ties at every level (tie-breaking must be reproducible too)
                conf_scores = [np.round(np.asarray(s, dtype=float).reshape(-1), cfg["quantise_scores"]) for s in scores]
            # rng left at assign_confidence's default in some scenarios (the default is a seed, too)
            rng_kw = {} if cfg.get("conf_rng_default") else {"rng": cfg["seed"]}
            mokapot.assign_confidence(
                psms=list(psms),
                max_workers=cfg["max_workers"],
                # C07 hands brew's return value to assign_confidence untouched (the same list objects), as the CLI does
                scores=conf_scores,
                descs=conf_descs,
                eval_fdr=cfg["test_fdr"],
                dest_dir=dest,
                prefixes=prefixes,
                decoys=conf.get("decoys", True),
                deduplication=conf.get("dedup", True),
                do_rollup=conf.get("rollup", True),
                proteins=proteins,
                **rng_kw,
            )
            if cfg.get("confidence_twice"):
                # a second report from the very same objects (scores/descs as returned by brew) into another directory
                dest2 = root / "out2"
                os.makedirs(dest2, exist_ok=True)
                res.stage = "assign_confidence_again"
                mokapot.assign_confidence(
                    psms=list(psms), max_workers=cfg["max_workers"],
                    scores=conf_scores, descs=conf_descs, eval_fdr=cfg["test_fdr"], dest_dir=dest2, prefixes=prefixes,
                    decoys=conf.get("decoys", True), deduplication=conf.get("dedup", True), do_rollup=conf.get("rollup", True),
                    proteins=proteins, **rng_kw,
                )
                for f2 in sorted(os.listdir(dest2)):
                    if (dest2 / f2).is_file():
                        with open(dest2 / f2, "rb") as fh:
                            res.files2[f2] = fh.read()
            res.stage = "done"
        except (Exception, SystemExit) as exc:  # noqa: BLE001  (triqler calls sys.exit on degenerate input)
            res.exc = exc
            res.error = f"{short_msg(exc)} at {exc_site(exc)} (stage {res.stage})"
        finally:
            for f in sorted(os.listdir(dest)):
                fp = dest / f
                if fp.is_file():
                    with open(fp, "rb") as fh:
                        res.files[f] = fh.read()
    return res


# ------------------------------------------------------------ the same analysis through the command line
def cli_args(paths, cfg, dest):
    """Argument vector of `mokapot.mokapot.main` that asks for the analysis described by cfg."""
    conf = cfg.get("conf", {})
    a = [str(p) for p in paths]
    a += ["--dest_dir", str(dest), "--max_workers", str(cfg["max_workers"]), "--train_fdr", repr(float(cfg["train_fdr"])),
          "--test_fdr", repr(float(cfg["test_fdr"])), "--max_iter", str(cfg["max_iter"]), "--seed", str(cfg["seed"]),
          "--folds", str(cfg["folds"]), "--verbosity", "0"]
    if cfg.get("subset_max_train") is not None:
        a += ["--subset_max_train", str(cfg["subset_max_train"])]
    if cfg.get("override"):
        a.append("--override")
    if cfg.get("ensemble"):
        a.append("--ensemble")
    if conf.get("decoys", True):
        a.append("--keep_decoys")
    if not conf.get("rollup", True):
        a.append("--skip_rollup")
    if cfg.get("cli_aggregate"):
        a.append("--aggregate")
    if cfg.get("cli_file_root"):
        a += ["--file_root", cfg["cli_file_root"]]
    if cfg.get("fasta_path"):
        a += ["--proteins", str(cfg["fasta_path"])]
        for k, v in (cfg.get("fasta_kw") or {}).items():
            a += [f"--{k}", str(v)]
    return a


def _run_cli(res, tables, paths, cfg, dest, ti, sched_desc, knobs, glob_seed, stop_after):
    """The analysis as `mokapot.mokapot.main(argv)` performs it.  The module-level names main() calls are the seam:
    `PercolatorModel` is replaced by a factory building the scenario's learner from the keyword arguments main() hands
    over (for the learner kinds perc/default the real class stays), and `read_pin` / `read_fasta` / `brew` are wrapped
    only to record what they return (the property's point of observation is brew's return value)."""
    import sys

    import mokapot  # noqa: F401

    cli = sys.modules["mokapot.mokapot"]
    saved = {k: getattr(cli, k) for k in ("PercolatorModel", "read_pin", "read_fasta", "brew")}
    cap = {}

    def factory(**kw):
        cap["model_kw"] = dict(kw)
        return estimators.make_model(cfg["learner"], ti, kw["train_fdr"], kw["max_iter"], kw["rng"],
                                     override=kw.get("override", False), **cfg.get("est_kw", {}))

    def read_pin(*a, **kw):
        res.stage = "read_pin"
        d = saved["read_pin"](*a, **kw)
        cap["datasets"] = d
        res.parsed = [
            {
                "feature_columns": list(x.feature_columns),
                "spectrum_columns": list(x.spectrum_columns),
                "metadata_columns": list(x.metadata_columns),
                "level_columns": list(x.level_columns),
                "n": len(x.spectra_dataframe),
                "targets": x.spectra_dataframe[x.target_column].astype(bool).tolist(),
            }
            for x in d
        ]
        res.stage = "main_after_read_pin"
        return d

    def read_fasta(*a, **kw):
        res.stage = "read_fasta"
        pr = saved["read_fasta"](*a, **kw)
        res.proteins = pr
        res.stage = "main_after_read_fasta"
        return pr

    def brew(*a, **kw):
        res.stage = "brew"
        cap["brew_kw"] = {k: v for k, v in kw.items() if k not in ("model",)}
        ret = saved["brew"](*a, **kw)
        psms, models, scores, descs = ret
        res.models = list(models)
        res.raw_scores = list(scores)
        res.scores = [np.array(s, dtype=float, copy=True).reshape(-1) for s in scores]
        res.descs = list(descs)
        res.stage = "assign_confidence"
        if stop_after == "brew" or not cfg.get("confidence"):
            raise _StopCli()
        return ret

    argv = cli_args(paths, cfg, dest)
    res.cli_argv = argv
    with world.sim_env(sched_desc, knobs, glob_seed=glob_seed) as (sch, fs):
        res.sched, res.fs = sch, fs
        try:
            if cfg["learner"] not in ("perc", "default"):
                cli.PercolatorModel = factory
            cli.read_pin, cli.read_fasta, cli.brew = read_pin, read_fasta, brew
            res.stage = "main"
            cli.main(argv)
            res.stage = "done"
        except _StopCli:
            pass
        except (Exception, SystemExit) as exc:  # noqa: BLE001
            res.exc = exc
            res.error = f"{short_msg(exc)} at {exc_site(exc)} (stage {res.stage})"
        finally:
            for k, v in saved.items():
                setattr(cli, k, v)
            for f in sorted(os.listdir(dest)):
                fp = dest / f
                if fp.is_file():
                    with open(fp, "rb") as fh:
                        res.files[f] = fh.read()
    res.cli_capture = cap
    return res


class _StopCli(Exception):
    pass


# ------------------------------------------------------------ result parsing
def parse_result_file(raw):
    """Parse a tab-separated result file into (header, rows of str)."""
    text = raw.decode()
    lines = text.split("\n")
    if lines and lines[-1] == "":
        lines.pop()
    if not lines:
        return [], []
    header = lines[0].split("\t")
    rows = [ln.split("\t") for ln in lines[1:]]
    return header, rows


def make_isobaric(tables, seed):
    """Rename peptides (consistently, in every column that spells them) so that every decoy peptide is a rearrangement of
    a target peptide's residues and many target peptides come in pairs of equal composition - what a target-only protein
    database needs: mokapot then pairs each decoy peptide with *some* target peptide of the same composition."""
    rng = random.Random(f"iso|{seed}")
    tps, dps = [], []
    for t in tables:
        pi = t["columns"].index("Peptide")
        for r, is_t in zip(t["rows"], datagen.targets_of(t)):
            lst = tps if is_t else dps
            if r[pi] not in lst:
                lst.append(r[pi])
    used = set(tps) | set(dps)

    def rearranged(p):
        body = list(p[:-1])
        for _ in range(60):
            rng.shuffle(body)
            q = "".join(body) + p[-1]
            if q not in used:
                used.add(q)
                return q
        return None

    ren = {}
    for k in range(0, len(tps) - 1, 2):
        if rng.random() < 0.7:
            q = rearranged(tps[k])
            if q:
                ren[tps[k + 1]] = q
    final_t = [ren.get(p, p) for p in tps]
    for i, d in enumerate(dps):
        q = rearranged(final_t[(2 * (i // 2)) % len(final_t)])
        if q:
            ren[d] = q
    out = []
    for t in tables:
        t = {"columns": list(t["columns"]), "rows": [list(r) for r in t["rows"]], "meta": t["meta"]}
        cols = t["columns"]
        pi = cols.index("Peptide")
        sc = [cols.index(c) for c in ("Peptide", "ModifiedPeptide", "Precursor") if c in cols]
        for r in t["rows"]:
            old = r[pi]
            if old in ren:
                for j in sc:
                    r[j] = r[j].replace(old, ren[old])
        out.append(t)
    return out


def fasta_for_tables(tables, seed, subset_p=0.2, pep_per_prot=3, with_decoys=True):
    """FASTA entries (name, sequence) whose tryptic digest yields exactly the
    tables' peptides: targets in P###, decoys in decoy_P###; a few peptides are
    shared between two proteins, a few proteins are subsets / copies of others."""
    rng = random.Random(f"fasta|{seed}")
    tp, dp = [], []
    for t in tables:
        pi = t["columns"].index("Peptide")
        for r, is_t in zip(t["rows"], datagen.targets_of(t)):
            (tp if is_t else dp).append(r[pi])
    tp = sorted(set(tp))
    dp = sorted(set(dp))
    rng.shuffle(tp)
    rng.shuffle(dp)
    n_prot = max(6, len(tp) // pep_per_prot)
    prots = {f"P{i:03d}": [] for i in range(n_prot)}
    dprots = {f"decoy_P{i:03d}": [] for i in range(n_prot)}
    names = list(prots)
    for i, p in enumerate(tp):
        prots[names[i % n_prot]].append(p)
        if rng.random() < 0.08:
            prots[names[rng.randrange(n_prot)]].append(p)  # shared peptide
    for i, p in enumerate(dp):
        dprots["decoy_" + names[i % n_prot]].append(p)
    # subset / copy proteins
    k = 0
    for n in list(names):
        if rng.random() < subset_p and len(prots[n]) >= 2:
            sub = prots[n][: rng.randint(1, len(prots[n]))]
            prots[f"S{k:03d}"] = list(sub)
            dprots[f"decoy_S{k:03d}"] = list(dprots["decoy_" + n][: max(1, len(sub) - 1)])
            k += 1
    entries = [(n, "".join(dict.fromkeys(v))) for n, v in prots.items()]
    if with_decoys:
        entries += [(n, "".join(dict.fromkeys(v))) for n, v in dprots.items()]
    rng.shuffle(entries)
    return entries
