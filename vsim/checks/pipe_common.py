"""Shared scenario generator and oracles for C02 (fold integrity) and C11
(per-fold calibration): both are evaluated on World-A executions
(read_pin -> brew with a recording estimator under the seeded scheduler)."""

from __future__ import annotations

import random

import numpy as np

from .. import datagen, estimators, refmodel, world
from ..driver import clone
from ..util import digest
from ..worlds import pipeline as P

PROBES = ["workers>1", "switches>0", "multi_file", "unequal_file_sizes", "parquet", "subsampled", "cap_not_binding",
          "pred_chunks>=2", "train_chunks>=2", "switch_in_get_rows", "switch_in_predict_fold",
          "scan_only_key", "four_col_key", "multi_psm_spectra", "fallback_best_feature",
          "brew_raised", "fold_without_accept", "dup_scan_other_mass", "pct_schedule", "pred_chunk_lacks_fold",
          "proba_only_learner", "learner_with_both_methods", "tied_raw_outputs", "same_files_analysed_before_in_process",
          "trained_models_reused_with_other_seed", "output_on_another_scale", "through_command_line", "train_set_blocks>=2"]


def make_scenario(prop, seed):
    rng = random.Random(seed)
    dp = P.gen_data_params(rng)
    folds = rng.choice([2, 3, 3, 4, 5, 6])
    n_rows_guess = int(dp["n_files"] * dp["n_spectra"] * (1 + dp["max_per_spectrum"]) / 2)
    # generator bound: keep folds large enough for mokapot's own domain
    smallest = dp["n_spectra"] * min(dp.get("size_factors") or [1.0]) * (1 + dp["max_per_spectrum"]) / 2
    while folds > 2 and smallest / folds < 45:
        folds -= 1
    workers = rng.choice([1, 2, 3, 4, 6, 8])
    r = rng.random()
    if r < 0.5:
        cap = None
    elif r < 0.85:
        cap = rng.randint(30, max(31, n_rows_guess // 2))
    else:
        cap = n_rows_guess * 3
    thr = rng.choice([0.1037, 0.2113, 0.2113, 0.3071])
    cfg = {
        "learner": rng.choice(["rlda", "rlda", "olda", "plda", "blda"]) if prop == "C02" else rng.choice(["rlda", "rlda", "olda", "blda"]),
        "folds": folds,
        "test_fdr": thr,
        "train_fdr": rng.choice(datagen.THRESHOLDS[1:]),
        "max_iter": rng.choice([1, 2, 3]),
        "seed": rng.randint(0, 10**6),
        "subset_max_train": cap,
        "max_workers": workers,
        "confidence": False,
        # with override the learned model is used even when it does not beat the best feature, which
        # keeps most runs informative; the statement holds for either setting
        "override": rng.random() < 0.8,
    }
    if prop == "C11" and rng.random() < 0.25:
        # a coarse output scale: exact ties between raw scores, also at the acceptance threshold
        cfg["est_kw"] = {"round_out": rng.choice([0, 1, 1])}
    # boundary values are taken relative to the ACTUAL row counts (building the tables is cheap)
    sizes = [len(t["rows"]) for t in P.build_tables(dp)]
    kn = {}
    if rng.random() < 0.7:
        kn["CHUNK_SIZE_ROWS_PREDICTION"] = datagen.knob_value(rng, rng.choice(sizes), extra=(folds, folds + 1, 2 * folds))
    if rng.random() < 0.7:
        kn["CHUNK_SIZE_READ_ALL_DATA"] = datagen.knob_value(rng, rng.choice(sizes))
    if rng.random() < 0.3:
        kn["CHUNK_SIZE_ROWS_FOR_DROP_COLUMNS"] = datagen.knob_value(rng, rng.choice(sizes))
    if cfg["subset_max_train"] is not None and rng.random() < 0.4:
        # cap exactly at / around the size of the training data of one fold
        approx_train = int(sum(sizes) * (folds - 1) / folds)
        cfg["subset_max_train"] = max(10, approx_train + rng.choice([-2, -1, 0, 1, 2, len(sizes)]))
    if rng.random() < 0.3:
        kn["CHUNK_SIZE_COLUMNS_FOR_DROP_COLUMNS"] = rng.randint(1, 25)
    fmt = rng.choice(["pin", "pin", "parquet"])
    prior = None
    if rng.random() < 0.25:
        # the same files were already analysed earlier in this process, with another fold count / seed
        prior = {"folds": rng.choice([f for f in (2, 3, 4, 5) if f != folds]), "seed": rng.randint(0, 10**6)}
    scn = {
        "prior": prior,
        "property": prop,
        "seed": seed,
        "data": dp,
        "cfg": cfg,
        "format": fmt,
        "row_group": rng.choice([None, 7, 50]) if fmt == "parquet" else None,
        "knobs": kn,
        "sched": world.gen_sched(rng, workers, est_steps=5000),
    }
    # afterwards the trained fold models are handed back to brew (in fold order) with ANOTHER seed: each must again
    # score only PSMs it was not trained on (a spectrum's fold must not depend on the seed)
    scn["reuse_seed"] = rng.randint(0, 10**6) if rng.random() < 0.3 else None
    if prop == "C11" and "est_kw" not in cfg and rng.random() < 0.3:
        # the same margins reported on another scale (large offset and small unit, tiny or huge unit): calibration must
        # not care
        cfg["est_kw"] = {"affine_out": rng.choice([[1000.0, 1e-3], [-5e4, 2.5e-2], [0.0, 1e-9], [3.0, 1e6]])}
    # a fifth of the text scenarios run the same analysis through the command line entry point (mokapot.mokapot.main):
    # the glue between argument parsing, read_pin, the model and brew is then part of what is executed
    r_blk = random.Random(f"blk|{seed}")
    if r_blk.random() < 0.4:
        # the block size make_train_sets uses to build the complement of a fold (5 million rows on the shipped tree,
        # i.e. a loop that no affordable file ever enters twice) - a knob through the guarded hook in /repo
        kn["TRAIN_SETS_BLOCK_SIZE"] = datagen.knob_value(r_blk, r_blk.choice(sizes), extra=(folds, 7, 50))
    r_cli = random.Random(f"cli|{seed}")
    if fmt == "pin" and r_cli.random() < 0.2:
        cfg["via_cli"] = True
    return scn


def _collect(models, tables):
    """Per model: predict-phase tags/raw outputs, fit tags."""
    out = []
    for m in models:
        est = m.estimator
        fit_tags = set()
        for e in getattr(est, "fit_log_", []):
            fit_tags.update(e["tags"])
        ptags, praw = [], []
        seen_calls = set()
        for e in getattr(est, "pred_log_", []):
            if e["phase"] == "predict":
                # mokapot may ask a predict_proba-only estimator twice for the same rows (_get_scores calls it again
                # after inspecting the shape): an identical repeated call is not a second scoring
                key = (tuple(e["tags"]), tuple(e["out"]))
                if key in seen_calls:
                    continue
                seen_calls.add(key)
                ptags.extend(e["tags"])
                praw.extend(e["out"])
        out.append({"fold": m.fold, "fit": fit_tags, "ptags": ptags, "praw": praw})
    return out


def run_scenario(scn, workdir, want):
    """want: "C02" or "C11" - which oracle's clauses count as violations."""
    tables = P.build_tables(scn["data"])
    cfg = scn["cfg"]
    if scn.get("prior"):
        cfg0 = dict(cfg)
        cfg0.update(folds=scn["prior"]["folds"], seed=scn["prior"]["seed"], max_workers=1, subset_max_train=None, override=True,
                    via_cli=False)
        P.run_pipeline(tables, cfg0, workdir, "run", fmt=scn["format"], row_group=scn.get("row_group"),
                       sched_desc={"mode": "fifo"}, knobs=None, stop_after="brew")
    estimators.REGISTRY.clear()
    res = P.run_pipeline(tables, cfg, workdir, "run", fmt=scn["format"], row_group=scn.get("row_group"),
                         sched_desc=scn.get("sched"), knobs=scn.get("knobs"))
    sch = res.sched
    sstats = sch.stats()
    n_rows = [len(t["rows"]) for t in tables]
    kn = scn.get("knobs") or {}
    sites = sstats["switch_sites"]
    spec_cols = tables[0]["meta"]["spectrum"]
    probes = {
        "workers>1": int(cfg["max_workers"] > 1),
        "switches>0": int(sstats["switches"] > sstats["parallel_calls"]),
        "multi_file": int(len(tables) > 1),
        "unequal_file_sizes": int(len({len(t["rows"]) for t in tables}) > 1),
        "parquet": int(scn["format"] == "parquet"),
        "pred_chunks>=2": int(kn.get("CHUNK_SIZE_ROWS_PREDICTION", 10**9) < max(n_rows)),
        "train_chunks>=2": int(kn.get("CHUNK_SIZE_READ_ALL_DATA", 10**9) < max(n_rows)),
        "switch_in_get_rows": int(sites.get("get_rows_from_dataframe", 0) > 0),
        "switch_in_predict_fold": int(sites.get("predict_fold", 0) + sites.get("decision_function", 0) > 0),
        "scan_only_key": int(len(spec_cols) == 1),
        "four_col_key": int(len(spec_cols) == 4),
        "pct_schedule": int((scn.get("sched") or {}).get("mode") == "pct"),
        "proba_only_learner": int(cfg["learner"] == "plda"),
        "same_files_analysed_before_in_process": int(bool(scn.get("prior"))),
        "learner_with_both_methods": int(cfg["learner"] == "blda"),
        "tied_raw_outputs": int(bool((cfg.get("est_kw") or {}).get("round_out") is not None)),
        "output_on_another_scale": int(bool((cfg.get("est_kw") or {}).get("affine_out"))),
        "through_command_line": int(bool(cfg.get("via_cli"))),
        "train_set_blocks>=2": int(kn.get("TRAIN_SETS_BLOCK_SIZE", 10**9) < max(n_rows)),
        "dup_scan_other_mass": int(bool(scn["data"].get("dup_scan_frac")) and "ExpMass" in scn["data"]["spec_extra"]),
        "pred_chunk_lacks_fold": int(kn.get("CHUNK_SIZE_ROWS_PREDICTION", 10**9) < 2 * cfg["folds"]),
    }
    out = {
        "status": "ok",
        "digest": digest([scn["data"], cfg, scn.get("prior"), scn["format"], scn.get("row_group"), kn, world.sched_digest(sch)]),
        "nontrivial": bool(cfg["max_workers"] > 1 or probes["pred_chunks>=2"] or probes["train_chunks>=2"]
                           or len(tables) > 1 or cfg.get("subset_max_train")),
        "probes": probes,
        "sched": sstats,
        "sched_digests": [world.sched_digest(sch)],
        "knobs": kn,
        "schedule": world.explicit_schedule(sch),
        "sample": {"data": scn["data"], "cfg": cfg, "format": scn["format"], "row_group": scn.get("row_group"),
                   "knobs": kn, "sched": scn.get("sched"), "rows": n_rows},
    }

    def viol(clause, msg, **sig):
        out.update(status="violation", clause=clause, message=msg, signature=sig)
        return out

    def uninf(why):
        out.update(status="uninformative", message=why)
        return out

    # ------------------------------------------------------------- errors
    if res.exc is not None:
        probes["brew_raised"] = 1
        msg = str(res.exc)
        if isinstance(res.exc, RuntimeError) and (
            "No PSMs found below" in msg or "No PSMs accepted at train_fdr" in msg
            or "No target PSMs were below" in msg
        ):
            return uninf(f"data set too hard for this threshold: {msg[:80]}")
        if isinstance(res.exc, RuntimeError) and "Failed to calibrate" in msg:
            if want != "C11":
                return uninf("calibration error path (decided by C11)")
            # C11: the error is only legitimate if some fold accepts no target
            ok = _check_calibration_error(tables, cfg)
            if ok is None:
                return uninf("calibration error; fold outputs near threshold or unavailable")
            if ok:
                probes["fold_without_accept"] = 1
                return out
            return viol("spurious_calibration_error",
                        "brew raised the calibration error although every fold accepts >=1 target at test_fdr")
        # any other failure of a well-formed run is a violation of the property the run was meant to show
        return viol("run_failed", f"brew failed on a well-formed input: {res.error}", **res.err_sig())

    models = res.models
    # fallback to best feature / untrained -> scores are not model outputs
    if not all(m.is_trained for m in models):
        return uninf("a fold model is untrained")
    col = _collect(models, tables)
    all_tags = [set(datagen.col(t, "tag")) for t in tables]
    union_all = set().union(*all_tags)
    tag_to_file_row = {}
    for fi, t in enumerate(tables):
        for ri, tg in enumerate(datagen.col(t, "tag")):
            tag_to_file_row[tg] = (fi, ri)
    ret = {}
    for fi, s in enumerate(res.scores):
        for ri, v in enumerate(s):
            ret[(fi, ri)] = float(v)

    fallback = res.descs != [True] * len(tables)
    if not fallback:
        # detect fallback with desc=True: returned scores equal a feature column
        for f in tables[0]["meta"]["features"]:
            if all(np.array_equal(np.asarray(datagen.col(t, f), float), res.scores[i]) for i, t in enumerate(tables)):
                fallback = True
    if fallback:
        probes["fallback_best_feature"] = 1

    if want == "C02":
        r = _oracle_c02(scn, tables, cfg, models, col, all_tags, union_all, tag_to_file_row, ret, fallback,
                        probes, out, viol, uninf)
        if r.get("status") != "ok" or scn.get("reuse_seed") is None:
            return r
        return _reuse_models(scn, tables, cfg, models, col, tag_to_file_row, workdir, probes, out, viol)
    return _oracle_c11(tables, cfg, col, tag_to_file_row, ret, fallback, probes, out, viol, uninf)


def _reuse_models(scn, tables, cfg, models, col, t2fr, workdir, probes, out, viol):
    """Second brew call: the trained fold models of the first call, in fold order, another seed, one worker."""
    before = [len(getattr(m.estimator, "pred_log_", [])) for m in models]
    cfg2 = dict(cfg)
    cfg2.update(seed=scn["reuse_seed"], max_workers=1, via_cli=False)
    res2 = P.run_pipeline(tables, cfg2, workdir, "run", fmt=scn["format"], row_group=scn.get("row_group"),
                          sched_desc={"mode": "fifo"}, knobs=scn.get("knobs"), models_in=list(models), stop_after="brew")
    if res2.exc is not None:
        if isinstance(res2.exc, RuntimeError) and ("No PSMs" in str(res2.exc) or "Failed to calibrate" in str(res2.exc)
                                                    or "No target PSMs" in str(res2.exc)):
            return out
        return viol("run_failed", f"brew with the trained models of the first call failed: {res2.error}", **res2.err_sig())
    probes["trained_models_reused_with_other_seed"] = 1
    for i, (m, c) in enumerate(zip(models, col)):
        new = [e for e in getattr(m.estimator, "pred_log_", [])[before[i]:] if e["phase"] == "predict"]
        scored = {tg for e in new for tg in e["tags"]}
        leak = scored & c["fit"]
        if leak:
            return viol("train_test_leak", f"re-applied with seed {scn['reuse_seed']}, the model of fold {i + 1} scores "
                        f"{len(leak)} PSMs it was trained on (e.g. tags {sorted(leak)[:5]})", kind="reused_models")
        fit_specs = {(t2fr[tg][0], _spec_key(tables[t2fr[tg][0]], t2fr[tg][1])) for tg in c["fit"]}
        for tg in scored:
            fi, ri = t2fr[tg]
            if (fi, _spec_key(tables[fi], ri)) in fit_specs:
                return viol("train_test_leak", f"re-applied with seed {scn['reuse_seed']}, the model of fold {i + 1} scores tag "
                            f"{tg} whose spectrum it was trained on", kind="reused_models_spectrum")
    return out


# ------------------------------------------------------------------ C02 oracle
def _spec_key(table, ri):
    cols = table["columns"]
    r = table["rows"][ri]
    return tuple(r[cols.index(c)] for c in table["meta"]["spectrum"])


def _oracle_c02(scn, tables, cfg, models, col, all_tags, union_all, t2fr, ret, fallback, probes, out, viol, uninf):
    folds = cfg["folds"]
    if len(models) != folds:
        return viol("fold_count", f"{len(models)} models for {folds} requested folds")
    for i, m in enumerate(models):
        if m.fold != i + 1:
            return viol("model_order", f"models[{i}].fold == {m.fold}, expected {i + 1}")
    # (i) partition
    owner = {}
    for i, c in enumerate(col):
        if not c["ptags"]:
            return viol("empty_fold", f"model of fold {i + 1} scored no PSM")
        for tg in c["ptags"]:
            if tg in owner:
                return viol("not_a_partition", f"row tag {tg} scored by fold {owner[tg] + 1} and fold {i + 1} "
                            "(or twice by one)", kind="double")
            owner[tg] = i
    missing = union_all - set(owner)
    if missing:
        return viol("not_a_partition", f"{len(missing)} rows were scored by no fold model, e.g. tags {sorted(missing)[:5]}",
                    kind="missing")
    extra = set(owner) - union_all
    if extra:
        return viol("not_a_partition", f"unknown tags scored: {sorted(extra)[:5]}", kind="unknown")
    # (ii) spectra kept together (per file)
    multi = 0
    for fi, t in enumerate(tables):
        spec_owner = {}
        tags = datagen.col(t, "tag")
        counts = {}
        for ri, tg in enumerate(tags):
            k = _spec_key(t, ri)
            counts[k] = counts.get(k, 0) + 1
            o = owner[tg]
            if k in spec_owner and spec_owner[k][0] != o:
                return viol("spectrum_split", f"file {fi}: spectrum {k} has PSM tag {spec_owner[k][1]} in fold "
                            f"{spec_owner[k][0] + 1} and PSM tag {tg} in fold {o + 1}")
            spec_owner.setdefault(k, (o, tg))
        multi += sum(1 for v in counts.values() if v > 1)
    probes["multi_psm_spectra"] = int(multi > 0)
    # (iii) training data exclude the held-out fold and the held-out spectra
    cap = cfg.get("subset_max_train")
    for i, c in enumerate(col):
        held = {tg for tg, o in owner.items() if o == i}
        leak = c["fit"] & held
        if leak:
            return viol("train_test_leak", f"model of fold {i + 1} was trained on {len(leak)} of the PSMs it scores "
                        f"(e.g. tags {sorted(leak)[:5]})", kind="same_psm")
        others = union_all - held
        stray = c["fit"] - others
        if stray:
            return viol("train_test_leak", f"fold {i + 1} trained on rows outside the other folds: {sorted(stray)[:5]}",
                        kind="outside")
        # same spectrum
        held_specs = set()
        for tg in held:
            fi, ri = t2fr[tg]
            held_specs.add((fi, _spec_key(tables[fi], ri)))
        for tg in c["fit"]:
            fi, ri = t2fr[tg]
            if (fi, _spec_key(tables[fi], ri)) in held_specs:
                return viol("train_test_leak", f"fold {i + 1} trained on tag {tg} whose spectrum it scores", kind="same_spectrum")
        if cap is not None:
            if len(others) > cap:
                probes["subsampled"] = 1
            else:
                probes["cap_not_binding"] = 1
    # (v) returned score is produced by the fold's model (affine image of its raw output)
    if not fallback:
        for i, c in enumerate(col):
            for fi in range(len(tables)):
                sel = [k for k, tg in enumerate(c["ptags"]) if t2fr[tg][0] == fi]
                raw = np.asarray([c["praw"][k] for k in sel], float)
                got = np.asarray([ret[t2fr[c["ptags"][k]]] for k in sel], float)
                if len(raw) >= 3 and np.ptp(raw) > 0 and np.all(np.isfinite(got)):
                    A = np.vstack([raw, np.ones_like(raw)]).T
                    sol, *_ = np.linalg.lstsq(A, got, rcond=None)
                    fit = A @ sol
                    scale = max(1.0, float(np.max(np.abs(got))))
                    if not np.allclose(fit, got, rtol=1e-7, atol=1e-7 * scale) or abs(sol[0]) < 1e-12:
                        worst = int(np.argmax(np.abs(fit - got)))
                        return viol("score_not_from_fold_model", f"fold {i + 1}, file {fi}: returned scores are not an "
                                    f"affine image of the raw outputs of the fold's model (e.g. tag {c['ptags'][sel[worst]]}: "
                                    f"raw {raw[worst]:.6g}, returned {got[worst]:.6g})")
    return out


# ------------------------------------------------------------------ C11 oracle
def _fold_reference(raw, targets, thr):
    """Returns (status, t0, d): status in ok|no_accept|near|degenerate."""
    q = refmodel.tdc_ref(raw, targets, desc=True)
    if refmodel.near_threshold(q, thr):
        return "near", None, None
    acc = (q <= thr) & targets
    if not acc.any():
        return "no_accept", None, None
    t0 = float(np.min(raw[acc]))
    d = float(np.median(raw[~targets]))
    if not t0 > d:
        return "degenerate", t0, d
    return "ok", t0, d


def _oracle_c11(tables, cfg, col, t2fr, ret, fallback, probes, out, viol, uninf):
    if fallback:
        return uninf("brew fell back to the best feature; scores are not calibrated model outputs")
    thr = cfg["test_fdr"]
    tgt = [datagen.targets_of(t) for t in tables]
    n_ok = 0
    # calibration happens per collection and per fold
    for i, c in enumerate(col):
        for fi in range(len(tables)):
            sel = [k for k, tg in enumerate(c["ptags"]) if t2fr[tg][0] == fi]
            if not sel:
                continue
            raw = np.asarray([c["praw"][k] for k in sel], float)
            tags = [c["ptags"][k] for k in sel]
            targets = np.asarray([tgt[fi][t2fr[tg][1]] for tg in tags], bool)
            got = np.asarray([ret[t2fr[tg]] for tg in tags], float)
            st, t0, d = _fold_reference(raw, targets, thr)
            if st == "near":
                continue
            if st == "no_accept":
                return viol("missing_calibration_error", f"fold {i + 1} of file {fi} accepts no target at {thr} "
                            "but brew returned scores instead of raising")
            if st == "degenerate":
                continue
            exp = (raw - t0) / (t0 - d)
            if not np.allclose(got, exp, rtol=1e-9, atol=1e-9):
                k = int(np.argmax(np.abs(got - exp)))
                # describe what is wrong: anchors / order
                order_ok = bool(np.all(np.argsort(raw, kind="stable") == np.argsort(got, kind="stable")))
                return viol("calibration", f"fold {i + 1} file {fi}: returned score of tag {tags[k]} is {got[k]:.9g}, "
                            f"expected (r-t0)/(t0-d) = {exp[k]:.9g} (t0={t0:.6g}, median decoy={d:.6g}); "
                            f"ranking preserved: {order_ok}", order_preserved=order_ok)
            n_ok += 1
    if n_ok == 0:
        return uninf("no fold with an accepted target above the decoy median away from the threshold")
    out["folds_checked"] = n_ok
    return out


def _check_calibration_error(tables, cfg):
    """After a 'Failed to calibrate' error: True if some (fold, file) accepts no
    target per the reference, False if all accept, None if undecidable."""
    thr = cfg["test_fdr"]
    tgt = [datagen.targets_of(t) for t in tables]
    t2fr = {}
    for fi, t in enumerate(tables):
        for ri, tg in enumerate(datagen.col(t, "tag")):
            t2fr[tg] = (fi, ri)
    any_seen = False
    undecidable = False
    for est in estimators.REGISTRY:
        per_file = {}
        for e in getattr(est, "pred_log_", []):
            if e["phase"] != "predict":
                continue
            for tg, r in zip(e["tags"], e["out"]):
                fi, ri = t2fr[tg]
                per_file.setdefault(fi, ([], []))
                per_file[fi][0].append(r)
                per_file[fi][1].append(tgt[fi][ri])
        for fi, (raw, tg) in per_file.items():
            any_seen = True
            st, _, _ = _fold_reference(np.asarray(raw, float), np.asarray(tg, bool), thr)
            if st == "no_accept":
                return True
            if st == "near":
                undecidable = True
    if not any_seen or undecidable:
        return None
    return False


def shrink_candidates(scn):
    cfg = scn["cfg"]
    dp = scn["data"]
    if scn.get("prior"):
        c = clone(scn); c["prior"] = None; yield c
    if scn.get("reuse_seed") is not None:
        c = clone(scn); c["reuse_seed"] = None; yield c
    if cfg.get("via_cli"):
        c = clone(scn); c["cfg"]["via_cli"] = False; yield c
    if cfg["max_workers"] > 1:
        c = clone(scn); c["cfg"]["max_workers"] = 1; c["sched"] = {"mode": "fifo"}; yield c
        c = clone(scn); c["cfg"]["max_workers"] = 2; yield c
    if scn["format"] != "pin":
        c = clone(scn); c["format"] = "pin"; c["row_group"] = None; yield c
    for k in list(scn.get("knobs") or {}):
        c = clone(scn); del c["knobs"][k]; yield c
    if dp["n_files"] > 1:
        c = clone(scn); c["data"]["n_files"] = dp["n_files"] - 1; yield c
    if cfg.get("subset_max_train") is not None:
        c = clone(scn); c["cfg"]["subset_max_train"] = None; yield c
    if cfg["folds"] > 2:
        c = clone(scn); c["cfg"]["folds"] = cfg["folds"] - 1; yield c
    if cfg["max_iter"] > 1:
        c = clone(scn); c["cfg"]["max_iter"] = 1; yield c
    if cfg["learner"] != "rlda":
        c = clone(scn); c["cfg"]["learner"] = "rlda"; yield c
    if dp["level_cols"]:
        c = clone(scn); c["data"]["level_cols"] = []; yield c
    for x in list(dp["spec_extra"]):
        c = clone(scn); c["data"]["spec_extra"] = [y for y in dp["spec_extra"] if y != x]; yield c
    if dp["n_spectra"] > 50:
        c = clone(scn); c["data"]["n_spectra"] = max(50, int(dp["n_spectra"] * 0.7)); yield c
    if dp["max_per_spectrum"] > 1:
        c = clone(scn); c["data"]["max_per_spectrum"] = dp["max_per_spectrum"] - 1; yield c
    if dp["n_features"] > 2:
        c = clone(scn); c["data"]["n_features"] = dp["n_features"] - 1; yield c
    if dp.get("dup_scan_frac"):
        c = clone(scn); c["data"]["dup_scan_frac"] = 0.0; yield c
    if dp["label_enc"] != "pm1":
        c = clone(scn); c["data"]["label_enc"] = "pm1"; yield c
    sd = scn.get("sched") or {}
    if sd.get("mode") in ("random", "pct"):
        c = clone(scn); c["sched"] = {"mode": "fifo"}; yield c
