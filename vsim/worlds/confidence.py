"""World B: assign_confidence / brew_rollup on generated tables with supplied scores."""

from __future__ import annotations

import os
import random
from pathlib import Path

import numpy as np

from .. import datagen, world
from ..util import exc_site, short_msg


def gen_conf_table_params(rng, *, file_id=0, small=False):
    n_spec = rng.randint(25, 60) if small else rng.randint(40, 150)
    return {
        "data_seed": rng.getrandbits(32),
        "n_spectra": n_spec,
        "max_per_spectrum": rng.choice([1, 2, 3, 4]),
        "n_features": 2,
        "spec_extra": [c for c in ("filename", "ret_time", "ExpMass") if rng.random() < 0.4],
        "calcmass": False,
        "label_enc": rng.choice(["pm1", "10", "bool"]),
        "level_cols": [c for c in ("ModifiedPeptide", "Precursor", "PeptideGroup") if rng.random() < 0.35],
        "pep_pool": rng.choice([None, None, max(8, n_spec // 3)]),
        "dup_scan_frac": rng.choice([0.0, 0.0, 0.2]),
        "file_id": file_id,
    }


def build_conf_table(p):
    t = _build_conf_table(p)
    if p.get("hash_twins"):
        datagen.plant_hash_twins(t, p["hash_twins"], random.Random(f"twins|{p['data_seed']}"))
    if p.get("sibling_groups"):
        datagen.plant_sibling_groups(t, random.Random(f"sibling|{p['data_seed']}"))
    return t


def _build_conf_table(p):
    rng = random.Random(f"{p['data_seed']}|{p.get('file_id', 0)}")
    return datagen.gen_table(
        rng,
        n_spectra=p["n_spectra"],
        max_per_spectrum=p["max_per_spectrum"],
        n_features=p["n_features"],
        spec_extra=p["spec_extra"],
        calcmass=p.get("calcmass", False),
        label_enc=p["label_enc"],
        level_cols=p.get("level_cols", ()),
        tag=False,
        file_id=p.get("file_id", 0),
        pep_pool=p.get("pep_pool"),
        dup_scan_frac=p.get("dup_scan_frac", 0.0),
        id_prefix=p.get("id_prefix", "t"),
    )


def gen_scores(table, seed, tie_mode=False, correct_shift=3.0, mode="plain", top_decoys=0):
    """Score vector: continuous and distinct; in tie mode exact ties are planted
    inside spectra and inside peptides."""
    rng = random.Random(f"scores|{seed}")
    n = len(table["rows"])
    corr = table["meta"]["truth_correct"]
    s = [float(f"{rng.gauss(correct_shift if corr[i] else 0.0, 1.0):.6f}") for i in range(n)]
    # make distinct
    seen = set()
    for i in range(n):
        while s[i] in seen:
            s[i] = float(f"{s[i] + 1e-6 * rng.randint(1, 999):.6f}")
        seen.add(s[i])
    if top_decoys:
        from ..datagen import targets_of

        tg = targets_of(table)
        dec = [i for i in range(n) if not tg[i]]
        top = max(s)
        for k, i in enumerate(rng.sample(dec, min(len(dec), top_decoys))):
            s[i] = float(f"{top + 1.5 + k:.6f}")  # decoys that outscore every target
    if mode == "zero_anchor" and n > 2:
        # what per-fold calibration produces: one PSM scores exactly 0.0, others lie on both sides
        order = sorted(range(n), key=lambda i: s[i])
        k = order[rng.randint(n // 4, 3 * n // 4)]
        base = s[k]
        s = [float(f"{v - base:.6f}") for v in s]
    elif mode == "quantised":
        # integer-like / rounded scores used directly: many exact ties, values straddling zero
        s = [round(v * 2) / 2 for v in s]
    if tie_mode:
        cols = table["columns"]
        si = [cols.index(c) for c in table["meta"]["spectrum"]]
        pi = cols.index("Peptide")
        by_spec, by_pep = {}, {}
        for i, r in enumerate(table["rows"]):
            by_spec.setdefault(tuple(r[j] for j in si), []).append(i)
            by_pep.setdefault(r[pi], []).append(i)
        groups = [g for g in by_spec.values() if len(g) > 1] + [g for g in by_pep.values() if len(g) > 1]
        rng.shuffle(groups)
        for g in groups[: max(2, len(groups) // 3)]:
            k = rng.randint(2, len(g))
            sub = rng.sample(g, k)
            v = max(s[i] for i in sub) if rng.random() < 0.7 else s[sub[0]]
            for i in sub:
                s[i] = v
    return s


class ConfResult:
    def __init__(self):
        self.exc = None
        self.error = None
        self.files = {}
        self.sched = None
        self.fs = None
        self.listing_after = None
        self.sqlite_dump = None
        self.first_attempt = None
        self.score_arrays_before = None
        self.score_arrays_after = None

    def err_sig(self):
        if self.exc is None:
            return None
        return {"etype": type(self.exc).__name__, "site": exc_site(self.exc)}


def run_assign_confidence(tables, scores, conf, workdir, name, fmt="pin", row_group=None, sched_desc=None,
                          knobs=None, glob_seed=None, faults=None, killable=False, report_path=None,
                          dest=None, descs=None, max_workers=1, read_workers=1, fasta_seed=None, sqlite=False, fail_first=False):
    """read_pin (un-simulated, 1 worker) then assign_confidence under the simulator."""
    import mokapot

    res = ConfResult()
    root = Path(workdir) / name
    os.makedirs(root, exist_ok=True)
    dest = Path(dest) if dest else root / "out"
    os.makedirs(dest, exist_ok=True)
    ext = ".parquet" if fmt == "parquet" else ".pin"
    paths = []
    for i, t in enumerate(tables):
        p = root / f"file{i}{ext}"
        if not p.exists():
            world.materialise(t, p, fmt, row_group)
        paths.append(p)
    datasets = mokapot.read_pin(paths, max_workers=read_workers)
    proteins = None
    if fasta_seed is not None:
        # protein-level confidence: a FASTA file (in the input directory) whose digest yields the tables' peptides
        from . import pipeline as P

        fa = root / f"db_{fasta_seed}.fasta"
        if not fa.exists():
            datagen.write_fasta(fa, P.fasta_for_tables(tables, fasta_seed, pep_per_prot=1))  # small tables: many small proteins
        proteins = mokapot.read_fasta(fa, missed_cleavages=0)
    prefixes = conf.get("prefixes")
    if prefixes is None:
        prefixes = [None] * len(paths)
    db = None
    if sqlite:
        # results go to a result database supplied by the caller (a fresh one per run, next to the input files)
        db = root / f"results_{os.path.basename(str(dest))}_{len(tables)}.db"
        make_result_db(db, tables)
    with world.sim_env(sched_desc, knobs, faults=faults, glob_seed=glob_seed, killable=killable,
                       report_path=report_path) as (sch, fs):
        res.sched, res.fs = sch, fs
        score_arrays = [np.array(s, dtype=float) for s in scores]  # the caller's own (writable) arrays
        res.score_arrays_before = [a.copy() for a in score_arrays]
        if fail_first:
            # a first attempt with the very same argument objects that fails (the destination does not exist yet);
            # the caller then creates the directory and calls again
            try:
                mokapot.assign_confidence(
                    psms=datasets, max_workers=max_workers, scores=score_arrays, descs=descs,
                    eval_fdr=conf.get("eval_fdr", 0.1037), dest_dir=dest / "not" / "yet" / "there",
                    file_root=conf.get("file_root", ""), prefixes=prefixes, decoys=conf.get("decoys", True),
                    deduplication=conf.get("dedup", True), do_rollup=conf.get("rollup", True), proteins=proteins,
                    rng=conf.get("seed", 0),
                )
                res.first_attempt = "succeeded"
            except (Exception, SystemExit) as exc:  # noqa: BLE001
                res.first_attempt = f"failed: {type(exc).__name__}"
        try:
            mokapot.assign_confidence(
                psms=datasets,
                max_workers=max_workers,
                scores=score_arrays,
                descs=descs,
                eval_fdr=conf.get("eval_fdr", 0.1037),
                dest_dir=dest,
                file_root=conf.get("file_root", ""),
                prefixes=prefixes,
                decoys=conf.get("decoys", True),
                deduplication=conf.get("dedup", True),
                do_rollup=conf.get("rollup", True),
                proteins=proteins,
                rng=conf.get("seed", 0),
                **({"sqlite_path": db} if db is not None else {}),
            )
        except (Exception, SystemExit) as exc:  # noqa: BLE001  (triqler calls sys.exit on degenerate input)
            res.exc = exc
            res.error = f"{short_msg(exc)} at {exc_site(exc)}"
    for f in sorted(os.listdir(dest)):
        fp = dest / f
        if fp.is_file():
            with open(fp, "rb") as fh:
                res.files[f] = fh.read()
    if db is not None:
        res.sqlite_dump = dump_result_db(db)
    res.score_arrays_after = score_arrays
    return res


_DB_TABLES = {
    "CANDIDATE": ("CANDIDATE_ID", "PSM_FDR REAL, SVM_SCORE REAL, POSTERIOR_ERROR_PROBABILITY REAL"),
    "PEPTIDE_VALIDATION": ("PEPTIDE_ID", "FDR REAL, PEP REAL, SVM_SCORE REAL"),
    "MODIFIED_PEPTIDE_VALIDATION": ("MODIFIED_PEPTIDE_ID", "FDR REAL, PEP REAL, SVM_SCORE REAL"),
    "PRECURSOR_VALIDATION": ("PCM_ID", "FDR REAL, PEP REAL, SVM_SCORE REAL"),
    "PEPTIDE_GROUP_VALIDATION": ("PEPTIDE_GROUP_ID", "FDR REAL, PEP REAL, SVM_SCORE REAL"),
}


def make_result_db(path, tables):
    """A result database of the layout mokapot's sqlite writer expects (table and column names); identifiers are text.
    Every PSM is pre-registered as a candidate, the level tables are empty."""
    import sqlite3

    if os.path.exists(path):
        os.unlink(path)
    con = sqlite3.connect(path)
    for name, (idc, rest) in _DB_TABLES.items():
        con.execute(f"CREATE TABLE {name} ({idc} TEXT NOT NULL, {rest}, PRIMARY KEY ({idc}))")
    for t in tables:
        si = t["columns"].index("SpecId")
        con.executemany("INSERT INTO CANDIDATE (CANDIDATE_ID) VALUES(?)", [(str(r[si]),) for r in t["rows"]])
    con.commit()
    con.close()


def dump_result_db(path):
    import sqlite3

    con = sqlite3.connect(path)
    out = {}
    for name, (idc, _rest) in _DB_TABLES.items():
        out[name] = [list(r) for r in con.execute(f"SELECT * FROM {name} ORDER BY {idc}")]
    con.close()
    return out


def run_rollup(src_dir, dest_dir, level="psm", file_root="rollup", sched_desc=None, knobs=None, glob_seed=None,
               faults=None):
    from mokapot import brew_rollup

    res = ConfResult()
    os.makedirs(dest_dir, exist_ok=True)
    with world.sim_env(sched_desc, knobs, faults=faults, glob_seed=glob_seed) as (sch, fs):
        res.sched, res.fs = sch, fs
        try:
            brew_rollup.main(["--level", level, "--src_dir", str(src_dir), "--dest_dir", str(dest_dir),
                              "--file_root", file_root, "--verbosity", "0"])
        except SystemExit as exc:
            res.exc = RuntimeError(f"SystemExit({exc.code})")
            res.error = str(res.exc)
        except (Exception, SystemExit) as exc:  # noqa: BLE001  (triqler calls sys.exit on degenerate input)
            res.exc = exc
            res.error = f"{short_msg(exc)} at {exc_site(exc)}"
    for f in sorted(os.listdir(dest_dir)):
        fp = Path(dest_dir) / f
        if fp.is_file():
            with open(fp, "rb") as fh:
                res.files[f] = fh.read()
    return res
