"""C09 - a run's results depend only on its inputs, not on leftovers of earlier
runs; no intermediate file of a successful confidence assignment remains.

Fault enumeration: a history = 1-3 earlier runs (each optionally failing at a
chosen mutation call: I/O error, kill before/after the call, torn write)
followed by a fault-free observed run in the same directory; the observed run
is also executed in a clean directory and must produce byte-identical result
files.

Family 1 (enumerated): one earlier run x EVERY mutation index x every fault
          kind, for a grid of (earlier chunking, observed chunking, same or
          other data, same or other format).
Family 2 (sampled): 2-3 earlier runs with seeded faults.
Family 3 (CLI): `mokapot` main() on a ragged PIN killed at every write of the
          temporary .tsv (and at the move), then main() again on the same file.
Family 4 (rollup tool): brew_rollup.main failing at mutation call k (kill, torn
          write, I/O error) in the directory holding its inputs or in a separate
          one, then brew_rollup.main again.
"""

from __future__ import annotations

import os
import random
import shutil
from pathlib import Path

from .. import pool, world
from ..driver import clone
from ..util import derive_seed, digest, digest_bytes, is_domain_error
from ..worlds import confidence as W
from ..worlds import history as H

PROPERTY = "C09"
LEVEL = "fault_enumeration"
QUICK_N = 10**6  # bounded by the enumeration itself (see scenarios())
SCENARIO_TIMEOUT = 300
PROBES = ["earlier_killed", "earlier_io_error", "earlier_clean", "debris_spill_files", "debris_level_files",
          "debris_partial_result", "debris_header_only", "debris_unreadable_parquet", "same_data", "other_data",
          "other_format", "multi_history", "cli", "cli_tsv_leftover", "observed_workers>1", "torn_write",
          "debris_zero_length", "prefix_or_root_differs", "observed_rows_multiple_of_chunk", "rollup_tool", "rollup_same_dir", "earlier_rollup_had_other_inputs", "rollup_outputs_match_input_pattern",
          "several_collections_with_prefixes", "unlink_refused", "observed_protein_level", "earlier_protein_level", "observed_writes_sqlite", "earlier_wrote_sqlite", "glob_metacharacters_in_prefix_or_root", "input_replaced_by_valid_table_between_runs"]
RULE = (
    "Histories in one destination directory. Family 1 enumerates, for each grid cell (earlier chunk size x observed "
    "chunk size x same/other data x same/other format), EVERY mutation call index of the earlier assign_confidence run "
    "x {io_error, kill_before, kill_after, kill_torn(0, 0.5, ~1)} (+ PermissionError at every unlink, which mokapot's clean-up swallows); family 2 samples 2-3 earlier runs with seeded "
    "faults, prefixes/file roots, formats and chunking; family 3 kills the CLI at every write of the temporary .tsv and "
    "at the move, then runs it again; family 4 does the same for brew_rollup.main (fault at mutation call 0..15). Oracle: observed run in the dirty directory == same run in a clean directory "
    "(success parity, byte-identical result files), every intermediate it created is gone, the user's PIN is the "
    "conversion of the original. distinct = distinct (history incl. fault, debris listing digest); non-trivial = the "
    "earlier run(s) left at least one file behind."
)
ASSUMPTIONS = [
    "crash = process death with the page cache surviving (kill -9); power loss with unflushed pages is not modelled "
    "beyond torn tails, and mokapot makes no durability claim",
    "the observed run and the clean-directory run use the same knobs, workers and schedule seed, so byte equality is demanded",
    ">= 5 targets and decoys per level (PEP estimation domain); a clean-directory run that fails makes the history uninformative",
    "debris with names the observed run does not use may remain (the statement only forbids that it alters results)",
]
REAL = ["mokapot.assign_confidence", "mokapot.mokapot.main (CLI: read_pin, brew with PercolatorModel, assign_confidence)",
        "mokapot.parsers.pin_to_tsv", "mokapot.tabular_data writers", "pandas", "pyarrow", "triqler", "file system (/dev/shm)",
        "process death (os._exit in a forked step process)"]
STUBS = ["joblib.Parallel -> vsim.sched.SimParallel", "Path.glob -> seeded permutation",
         "mutation calls (to_csv/to_parquet/ParquetWriter/unlink/move/open+write) wrapped for counting and fault injection"]
EXHAUSTIVE = False
EXHAUSTIVE_SUBSPACES = ["family 1: all mutation-call indices x all fault kinds of one earlier run, per sampled grid cell",
                        "family 3: all write calls of the .tsv conversion (+ the move) of the sampled ragged PIN"]

KINDS = [("io_error", None), ("kill_before", None), ("kill_after", None), ("kill_torn", 0.0), ("kill_torn", 0.5),
         ("kill_torn", 0.999)]


def _table_params(rng, file_id=0, n_spec=None, level_cols=()):
    return {
        "data_seed": rng.getrandbits(32),
        "n_spectra": n_spec or rng.randint(45, 75),
        "max_per_spectrum": rng.choice([1, 2, 2]),
        "n_features": 2,
        "spec_extra": ["ExpMass"],
        "calcmass": False,
        "label_enc": "pm1",
        "level_cols": list(level_cols),
        "pep_pool": None,
        "dup_scan_frac": 0.0,
        "file_id": file_id,
    }


def _run_desc(rng, tab, *, chunk, fmt, workers=1, prefix=None, file_root="", decoys=True, tag="r"):
    kn = {}
    if chunk:
        kn["CONFIDENCE_CHUNK_SIZE"] = chunk
    if rng.random() < 0.3:
        kn["MERGE_SORT_CHUNK_SIZE"] = rng.choice([1, 3, 10])
    conf = {"decoys": decoys, "dedup": True, "rollup": True, "eval_fdr": 0.1037, "file_root": file_root}
    if prefix:
        conf["prefixes"] = [prefix]
    d = {
        "tables": [tab],
        "score_seed": rng.getrandbits(32),
        "conf": conf,
        "format": fmt,
        "row_group": None,
        "knobs": kn,
        "max_workers": workers,
        "sched": world.gen_sched(rng, workers, est_steps=600) if workers > 1 else {"mode": "fifo"},
        "glob_seed": rng.getrandbits(16),
        "fault": None,
        "seed": rng.getrandbits(31),
        "tag": tag,
        # protein-level confidence as well (its level file is written by the picked-protein step, not by the level loop)
        "fasta_seed": rng.getrandbits(16) if rng.random() < 0.35 else None,
        # results written to a result database (sqlite_path) instead of text files
        "sqlite": False,
    }
    if rng.random() < 0.15:
        d["sqlite"], d["fasta_seed"] = True, None  # (the database layout has no protein table)
    return d


def _n_rows(tab):
    return len(W.build_conf_table(tab)["rows"])


def _exact_chunk(rng, n):
    """A chunk size that divides the row count exactly (n = k*c): the boundary case of every 'number of chunks' formula."""
    divs = [n // k for k in (1, 1, 2, 3, 4, 5) if n % k == 0]
    return rng.choice(divs)


def _in_name(run):
    return "in_" + digest([run["tables"], run["format"]])[:10]


def count_mutations(run):
    """Fault-free dry run of `run` in a scratch directory: number of mutation calls."""
    root = os.path.join(pool.scratch_root(), f"vsim-count-{os.getpid()}")
    shutil.rmtree(root, ignore_errors=True)
    try:
        r = dict(run)
        r["in_name"] = _in_name(run)
        rep = H.run_conf(r, root)
        return rep.get("count", 0), rep
    finally:
        shutil.rmtree(root, ignore_errors=True)


def _family1_cells(rng, n_cells):
    cells = []
    for i in range(n_cells):
        tab_e = _table_params(rng, level_cols=rng.choice([(), (), ("Precursor",)]))
        same = rng.random() < 0.5
        tab_o = dict(tab_e) if same else _table_params(rng, level_cols=tab_e["level_cols"])
        fmt_e = rng.choice(["pin", "pin", "parquet"])
        fmt_o = fmt_e if rng.random() < 0.6 else ("parquet" if fmt_e == "pin" else "pin")
        n_guess = int(tab_e["n_spectra"] * 1.5)
        ch_e = rng.choice([n_guess // 4, n_guess // 3, n_guess // 2, n_guess // 6])
        ch_o = rng.choice([None, n_guess // 2, n_guess // 3, ch_e, 10**9])
        if rng.random() < 0.5:
            ch_o = _exact_chunk(rng, _n_rows(tab_o))
        earlier = _run_desc(rng, tab_e, chunk=ch_e, fmt=fmt_e, workers=rng.choice([1, 1, 2, 3]), tag="e0")
        observed = _run_desc(rng, tab_o, chunk=ch_o, fmt=fmt_o, workers=rng.choice([1, 2, 4]), tag="obs")
        if same and rng.random() < 0.5:
            observed["score_seed"] = earlier["score_seed"]
        if observed.get("fasta_seed") is not None and count_mutations(observed)[1].get("outcome") != "ok":
            observed["fasta_seed"] = None  # protein level degenerate on this table: keep the enumeration informative
        cells.append((earlier, observed))
    return cells


def scenarios(tier, batch_seed):
    rng = random.Random(derive_seed(PROPERTY, batch_seed, "cells"))
    n_cells = 3 if tier == "quick" else 10**6
    n_f2 = 100 if tier == "quick" else 10**9
    n_f3 = 1 if tier == "quick" else 10**9
    idx = 0
    cell_no = 0
    f2_done = 0
    f3_done = 0
    # interleave the three families so that a wall-budgeted thorough run covers all of them
    while cell_no < n_cells or f2_done < n_f2 or f3_done < n_f3:
        if cell_no < n_cells:
            earlier, observed = _family1_cells(rng, 1)[0]
            n, rep = count_mutations(earlier)
            cell_no += 1
            if n:
                unlink_ks = {int(e[0]) for e in (rep.get("log") or []) if e[1] == "unlink"}
                for k in range(n):
                    kinds = list(KINDS) + ([("unlink_error", None)] if k in unlink_ks else [])
                    for kind, frac in kinds:
                        e = clone(earlier)
                        e["fault"] = {"at": k, "kind": kind}
                        if frac is not None:
                            e["fault"]["frac"] = frac
                        yield {"property": PROPERTY, "seed": derive_seed(PROPERTY, batch_seed, idx), "family": 1,
                               "cell": cell_no, "n_mutations": n, "earlier": [e], "observed": clone(observed)}
                        idx += 1
                # and the fault-free earlier run
                yield {"property": PROPERTY, "seed": derive_seed(PROPERTY, batch_seed, idx), "family": 1, "cell": cell_no,
                       "n_mutations": n, "earlier": [clone(earlier)], "observed": clone(observed)}
                idx += 1
        for _ in range(25):
            if f2_done >= n_f2:
                break
            yield _family2(derive_seed(PROPERTY, batch_seed, "f2", f2_done))
            f2_done += 1
        if f3_done < n_f3:
            for scn in _family3(derive_seed(PROPERTY, batch_seed, "f3", f3_done), tier):
                yield scn
            for rep_ in range(2 if tier == "quick" else 1):
                for scn in _family4(derive_seed(PROPERTY, batch_seed, "f4", f3_done, rep_), tier):
                    yield scn
            f3_done += 1


def _family2(seed):
    rng = random.Random(seed)
    n_e = rng.choice([2, 2, 3])
    level_cols = rng.choice([(), (), ("Precursor",), ("ModifiedPeptide", "PeptideGroup")])
    tab_o = _table_params(rng, level_cols=level_cols)
    fmt_o = rng.choice(["pin", "parquet"])
    n_guess = int(tab_o["n_spectra"] * 1.5)
    ch_o = rng.choice([None, n_guess // 2, n_guess // 3, 7])
    if rng.random() < 0.4:
        ch_o = _exact_chunk(rng, _n_rows(tab_o))
    observed = _run_desc(rng, tab_o, chunk=ch_o, fmt=fmt_o,
                         workers=rng.choice([1, 2, 4]), prefix=rng.choice([None, None, "p0", "p[1]"]),
                         file_root=rng.choice(["", "", "rootA.", "set[2]*."]), decoys=rng.random() < 0.8, tag="obs")
    multi = rng.random() < 0.35
    pool_px = ["pa", "pb", "pc", "run[1]", "run[2]"]  # (file stems become prefixes: "run[1].pin")
    if multi:
        # one call analysing two collections with per-file prefixes (the CLI with several PIN files)
        tab2 = _table_params(rng, file_id=1, level_cols=level_cols)
        observed["tables"] = [tab_o, tab2]
        observed["conf"]["prefixes"] = rng.sample(pool_px, 2)
        observed["sqlite"] = False  # one result database cannot hold two collections sharing peptide (group) identifiers
    earlier = []
    for j in range(n_e):
        same = rng.random() < 0.4
        tab = dict(tab_o) if same else _table_params(rng, level_cols=rng.choice([level_cols, ()]))
        e = _run_desc(rng, tab, chunk=rng.choice([n_guess // 5, n_guess // 3, n_guess // 2, 5, None]),
                      fmt=rng.choice([fmt_o, fmt_o, "pin", "parquet"]), workers=rng.choice([1, 2]),
                      prefix=rng.choice([None, None, "p0", "p1", "p[1]"]), file_root=rng.choice(["", "", "rootA.", "rootB.", "set[2]*."]),
                      decoys=rng.random() < 0.8, tag=f"e{j}")
        if multi and rng.random() < 0.7:
            e["tables"] = [tab, _table_params(rng, file_id=1, level_cols=tab["level_cols"])]
            e["conf"]["prefixes"] = rng.sample(pool_px, 2)
            e["conf"]["file_root"] = observed["conf"].get("file_root", "")
            e["sqlite"] = False
        r = rng.random()
        if r < (0.5 if multi else 0.75):
            e["fault"] = {"at": rng.randint(0, 70 if multi else 45), "kind": rng.choice([k for k, _ in KINDS]), "frac": rng.choice([0.0, 0.5, 0.999])}
        earlier.append(e)
    return {"property": PROPERTY, "seed": seed, "family": 2, "earlier": earlier, "observed": observed}


def _cli_args(pin, dest, rng):
    return [pin, "--dest_dir", dest, "--max_workers", "1", "--test_fdr", "0.2113", "--train_fdr", "0.2113",
            "--max_iter", "1", "--folds", "2", "--seed", "3", "--verbosity", "0", "--keep_decoys", "--override"]


def _family3(seed, tier):
    rng = random.Random(seed)
    tab = _table_params(rng, n_spec=rng.randint(90, 110))
    tab["n_features"] = 3
    tab["spec_extra"] = ["ExpMass"]
    base = {"property": PROPERTY, "family": 3, "cli": True, "table": tab, "ragged_seed": rng.getrandbits(16),
            "default_direction": rng.random() < 0.5}
    # the number of write calls = header + one per PSM; enumerate a stride in quick, all in thorough
    n_rows_guess = int(tab["n_spectra"] * 1.5) + 2
    if tier == "quick":
        ks = sorted(set([0, 1, 2, 3, 5, n_rows_guess // 2] + [rng.randint(0, n_rows_guess) for _ in range(4)]))
    else:
        ks = list(range(0, n_rows_guess + 3))
    i = 0
    for k in ks:
        for kind, frac in (("kill_before", None), ("kill_after", None), ("kill_torn", 0.5), ("io_error", None)):
            scn = clone(base)
            scn["seed"] = derive_seed(seed, i)
            scn["fault"] = {"at": k, "kind": kind}
            if frac is not None:
                scn["fault"]["frac"] = frac
            # between the two runs the user may put another, already rectangular table at the same path
            scn["replace_input"] = {"data_seed": (tab["data_seed"] + 1 + i) % 2**32} if i % 3 == 1 else None
            i += 1
            yield scn
    scn = clone(base)
    scn["seed"] = derive_seed(seed, "nofault")
    scn["fault"] = None
    yield scn


def _family4(seed, tier):
    """brew_rollup histories: an earlier rollup run failing at mutation call k, then the rollup again."""
    rng = random.Random(seed)
    level_cols = rng.choice([(), ("Precursor",), ("ModifiedPeptide", "Precursor")])
    n_roots = rng.choice([1, 2, 3])
    tabs = []
    for i in range(n_roots):
        t = _table_params(rng, file_id=i, n_spec=rng.randint(45, 70), level_cols=level_cols)
        tabs.append(t)
    base = {"property": PROPERTY, "family": 4, "rollup": True, "tables": tabs,
            "score_seeds": [rng.getrandbits(32) for _ in tabs], "same_dir": rng.random() < 0.6,
            "glob_seed": rng.getrandbits(16)}
    # base level: with "peptide"/"precursor" the tool's own result files match its input pattern (*.targets.<level>s)
    base["level"] = rng.choice(["psm", "peptide", "peptide"] + (["precursor"] if "Precursor" in level_cols else []))
    # inputs that exist only while the EARLIER rollup runs (an experiment withdrawn / re-scored afterwards)
    n_extra = rng.choice([0, 1, 1, 2])
    base["extra_tables"] = [_table_params(rng, file_id=10 + i, n_spec=rng.randint(45, 70), level_cols=level_cols)
                            for i in range(n_extra)]
    base["extra_score_seeds"] = [rng.getrandbits(32) for _ in range(n_extra)]
    ks = list(range(0, 16)) if tier != "quick" else [0, 1, 2, 3, 5, 7, 9, 11]
    i = 0
    scn = clone(base)
    scn["seed"] = derive_seed(seed, "nofault")
    scn["fault"] = None  # the earlier rollup completes (with other inputs)
    yield scn
    for k in ks:
        for kind, frac in (("kill_before", None), ("kill_torn", 0.5), ("io_error", None)):
            scn = clone(base)
            scn["seed"] = derive_seed(seed, i)
            scn["fault"] = {"at": k, "kind": kind}
            if frac is not None:
                scn["fault"]["frac"] = frac
            i += 1
            yield scn


# ------------------------------------------------------------------------ run
def _classify_debris(listing_):
    names = [n for n, _ in listing_]
    p = {
        "debris_spill_files": int(any("scores_metadata_" in n for n in names)),
        "debris_level_files": int(any(os.path.basename(n).split(".")[0] in ("psms", "peptides", "precursors", "modifiedpeptides", "peptidegroups")
                                      or ".psms." in n for n in names if "targets" not in n and "decoys" not in n)),
        "debris_partial_result": int(any(("targets." in n or "decoys." in n) for n in names)),
        "debris_header_only": int(any(s < 120 and s > 0 for n, s in listing_ if n.startswith("out/"))),
        "debris_zero_length": int(any(s == 0 for n, s in listing_ if n.startswith("out/"))),
    }
    return p


def _run_rollup_history(scn, workdir):
    work = Path(workdir)
    probes = {"rollup_tool": 1, "rollup_same_dir": int(scn["same_dir"])}
    faults = {}
    roots = {}
    for tag in ("dirty", "clean"):
        root = work / tag
        for i, (tab, ss) in enumerate(zip(scn["tables"], scn["score_seeds"])):
            run = {"tables": [tab], "score_seed": ss, "format": "pin", "knobs": {}, "max_workers": 1,
                   "sched": {"mode": "fifo"}, "glob_seed": None, "fault": None, "seed": 1, "tag": f"in{i}",
                   "conf": {"decoys": True, "dedup": True, "rollup": True, "eval_fdr": 0.1037, "file_root": f"{chr(97 + i)}."}}
            run["in_name"] = f"in{i}"
            rep = H.run_conf(run, root)
            if rep["outcome"] != "ok":
                return {"status": "uninformative", "message": f"input production failed: {rep.get('error')}"[:160],
                        "digest": digest(scn), "nontrivial": False, "probes": probes}
        roots[tag] = root
    extra_names = []
    for i, (tab, ss) in enumerate(zip(scn.get("extra_tables") or [], scn.get("extra_score_seeds") or [])):
        fr = f"x{i}."
        run = {"tables": [tab], "score_seed": ss, "format": "pin", "knobs": {}, "max_workers": 1, "sched": {"mode": "fifo"},
               "glob_seed": None, "fault": None, "seed": 1, "tag": f"x{i}", "in_name": f"xin{i}",
               "conf": {"decoys": True, "dedup": True, "rollup": True, "eval_fdr": 0.1037, "file_root": fr}}
        rep = H.run_conf(run, roots["dirty"])
        if rep["outcome"] == "ok":
            extra_names.append(fr)
    probes["earlier_rollup_had_other_inputs"] = int(bool(extra_names))

    def dirs(root):
        src = root / "out"
        return src, (src if scn["same_dir"] else root / "roll")
    src_d, dest_d = dirs(roots["dirty"])
    src_c, dest_c = dirs(roots["clean"])
    lvl = scn.get("level", "psm")
    probes["rollup_outputs_match_input_pattern"] = int(lvl != "psm" and scn["same_dir"])
    e = {"src": str(src_d), "dest": str(dest_d), "fault": scn.get("fault"), "glob_seed": scn.get("glob_seed"), "level": lvl}
    rep_e = H.run_rollup_hist(e, roots["dirty"])
    if rep_e["outcome"] in ("timeout", "harness_error"):
        raise RuntimeError(f"earlier rollup step failed: {rep_e}")
    for f in rep_e.get("fired", []):
        faults[f["kind"]] = faults.get(f["kind"], 0) + 1
        if f["kind"] == "kill_torn":
            probes["torn_write"] = 1
    probes["earlier_killed" if rep_e["outcome"] == "killed" else ("earlier_io_error" if rep_e["outcome"] == "error" else "earlier_clean")] = 1
    # the extra inputs are withdrawn before the observed run
    for f in os.listdir(src_d):
        if any(f.startswith(fr) for fr in extra_names):
            os.unlink(src_d / f)
    debris = [x for x in H.listing(dest_d) if os.path.basename(x[0]).startswith("rollup.")]
    out = {
        "status": "ok",
        "digest": digest([scn["tables"], scn["score_seeds"], scn.get("extra_tables"), scn.get("fault"), scn["same_dir"], scn.get("level"), digest(debris)]),
        "nontrivial": bool(debris),
        "probes": probes,
        "faults": faults,
        "debris_states": [digest(debris)],
        "sample": {"family": 4, "fault": scn.get("fault"), "earlier_outcome": rep_e["outcome"], "debris": debris[:10],
                   "same_dir": scn["same_dir"], "roots": len(scn["tables"])},
    }

    def viol(clause, msg, **sig):
        sig["tool"] = "brew_rollup"
        out.update(status="violation", clause=clause, message=msg, signature=sig)
        return out

    rep_d = H.run_rollup_hist({"src": str(src_d), "dest": str(dest_d), "fault": None, "glob_seed": scn.get("glob_seed"), "level": lvl}, roots["dirty"])
    rep_c = H.run_rollup_hist({"src": str(src_c), "dest": str(dest_c), "fault": None, "glob_seed": scn.get("glob_seed"), "level": lvl}, roots["clean"])
    for rp in (rep_d, rep_c):
        if rp["outcome"] in ("timeout", "harness_error", "killed"):
            raise RuntimeError(f"observed rollup step failed: {rp}")
    if rep_c["outcome"] != "ok":
        if not is_domain_error(rep_c.get("etype"), rep_c.get("error"), rep_c.get("error")):
            return viol("run_failed", f"brew_rollup fails even in a clean directory: {rep_c.get('error')}", etype=rep_c.get("etype"))
        out.update(status="uninformative", message=f"clean rollup fails: {rep_c.get('error')}"[:200])
        return out
    if rep_d["outcome"] != "ok":
        return viol("observed_run_fails_on_debris", f"brew_rollup succeeds in a clean directory but fails after the interrupted "
                    f"earlier rollup: {rep_d.get('error')}; debris {[n for n, _ in debris][:6]}", etype=rep_d.get("etype"))
    a, b = H.read_dir(dest_d), H.read_dir(dest_c)
    for name, want in b.items():
        if not name.startswith("rollup.") or ".temp." in name:
            continue
        if a.get(name) != want:
            return viol("result_differs", f"rollup result file {name} differs from the clean-directory run "
                        f"({len((a.get(name) or b'').splitlines())} vs {len(want.splitlines())} lines)", level=name.split(".")[-1])
    return out


def run_scenario(scn, workdir):
    if scn.get("cli"):
        return _run_cli_history(scn, workdir)
    if scn.get("rollup"):
        return _run_rollup_history(scn, workdir)
    work = Path(workdir)
    dirty = work / "dirty"
    clean = work / "clean"
    probes = {}
    faults = {}
    reports = []
    sched_digests = []
    for e in scn["earlier"]:
        r = dict(e)
        r["in_name"] = _in_name(e)
        rep = H.run_conf(r, dirty)
        if rep["outcome"] in ("timeout", "harness_error"):
            raise RuntimeError(f"earlier run step failed: {rep}")
        reports.append(rep)
        for f in rep.get("fired", []):
            faults[f["kind"]] = faults.get(f["kind"], 0) + 1
            if f["kind"] == "kill_torn":
                probes["torn_write"] = 1
            if f["kind"] == "unlink_error":
                probes["unlink_refused"] = 1
        if rep["outcome"] == "killed":
            probes["earlier_killed"] = 1
        elif rep["outcome"] == "error":
            probes["earlier_io_error"] = 1
        else:
            probes["earlier_clean"] = 1
    debris = [x for x in H.listing(dirty) if x[0].startswith("out")]
    probes.update(_classify_debris(debris))
    for n, sz in debris:
        if n.endswith(".parquet"):
            try:
                with open(dirty / n, "rb") as fh:
                    fh.seek(max(0, sz - 4))
                    if fh.read() != b"PAR1":
                        probes["debris_unreadable_parquet"] = 1
            except OSError:
                pass
    obs = dict(scn["observed"])
    obs["in_name"] = _in_name(scn["observed"])
    same_data = any(e["tables"] == scn["observed"]["tables"] for e in scn["earlier"])
    probes["same_data" if same_data else "other_data"] = 1
    probes["other_format"] = int(any(e["format"] != scn["observed"]["format"] for e in scn["earlier"]))
    probes["multi_history"] = int(len(scn["earlier"]) > 1)
    probes["observed_protein_level"] = int(scn["observed"].get("fasta_seed") is not None)
    probes["earlier_protein_level"] = int(any(e.get("fasta_seed") is not None for e in scn["earlier"]))
    probes["glob_metacharacters_in_prefix_or_root"] = int(any(
        ch in str((r["conf"].get("prefixes"), r["conf"].get("file_root"))) for r in [scn["observed"]] + scn["earlier"] for ch in "[*"))
    probes["observed_writes_sqlite"] = int(bool(scn["observed"].get("sqlite")))
    probes["earlier_wrote_sqlite"] = int(any(e.get("sqlite") for e in scn["earlier"]))
    probes["several_collections_with_prefixes"] = int(len(scn["observed"]["tables"]) > 1)
    _c = (scn["observed"].get("knobs") or {}).get("CONFIDENCE_CHUNK_SIZE")
    probes["observed_rows_multiple_of_chunk"] = int(bool(_c) and _c < 10**8 and _n_rows(scn["observed"]["tables"][0]) % _c == 0)
    probes["observed_workers>1"] = int(obs.get("max_workers", 1) > 1)
    probes["prefix_or_root_differs"] = int(any(
        (e["conf"].get("prefixes"), e["conf"].get("file_root")) != (obs["conf"].get("prefixes"), obs["conf"].get("file_root"))
        for e in scn["earlier"]))
    rep_d = H.run_conf(obs, dirty)
    after_dirty = H.read_dir(dirty / "out")
    rep_c = H.run_conf(obs, clean)
    after_clean = H.read_dir(clean / "out")
    for rp in (rep_d, rep_c):
        if rp["outcome"] in ("timeout", "harness_error", "killed"):
            raise RuntimeError(f"observed run step failed: {rp}")
    debris_digest = digest(debris)
    out = {
        "status": "ok",
        "digest": digest([scn["earlier"], scn["observed"], debris_digest]),
        "nontrivial": bool(debris),
        "probes": probes,
        "faults": faults,
        "debris_states": [debris_digest],
        "sched": rep_d.get("sched") or {},
        "knobs": scn["observed"].get("knobs") or {},
        "sample": {"family": scn.get("family"), "earlier": [{k: e[k] for k in ("format", "knobs", "fault", "max_workers", "conf")}
                                                            for e in scn["earlier"]],
                   "observed": {k: scn["observed"][k] for k in ("format", "knobs", "max_workers", "conf")},
                   "earlier_outcomes": [r["outcome"] for r in reports], "debris": debris[:12]},
    }

    def viol(clause, msg, **sig):
        out.update(status="violation", clause=clause, message=msg, signature=sig)
        return out

    if rep_c["outcome"] != "ok":
        if not is_domain_error(rep_c.get("etype"), rep_c.get("error"), rep_c.get("site") or rep_c.get("error")):
            return viol("run_failed", f"the run fails even in a clean directory: {rep_c.get('error')}",
                        etype=rep_c.get("etype"), site=rep_c.get("site"))
        out.update(status="uninformative", message=f"clean-directory run fails: {rep_c.get('error')}"[:200])
        return out
    dkinds = sorted(k for k, v in _classify_debris(debris).items() if v)
    if rep_d["outcome"] != "ok":
        probes["observed_failed_in_dirty_dir"] = 1
        return viol("observed_run_fails_on_debris",
                    f"the run succeeds in a clean directory but fails in the directory left by the earlier run(s): "
                    f"{rep_d.get('error')}; debris: {[n for n, _ in debris][:8]}",
                    etype=rep_d.get("etype"), site=rep_d.get("site"))
    # (ii) result files identical
    for name, want in after_clean.items():
        got = after_dirty.get(name)
        if got is None:
            return viol("result_missing", f"result file {name} is missing in the dirty-directory run")
        if got != want:
            h1 = want.split(b"\n")
            h2 = got.split(b"\n")
            return viol("result_differs", f"result file {name} differs from the clean-directory run: {len(h2) - 1} vs "
                        f"{len(h1) - 1} lines; debris before the run: {[n for n, _ in debris][:8]}",
                        more_rows=len(h2) > len(h1), level=name.split(".")[-1] if "." in name else name)
    if rep_c.get("sqlite_dump") is not None:
        dd, dc = rep_d.get("sqlite_dump") or {}, rep_c["sqlite_dump"]
        for tname, want in dc.items():
            if dd.get(tname) != want:
                return viol("result_differs", f"result database table {tname} differs from the clean-directory run: "
                            f"{len(dd.get(tname) or [])} vs {len(want)} rows; debris before the run: {[n for n, _ in debris][:8]}",
                            more_rows=len(dd.get(tname) or []) > len(want), level=tname)
        if not any(r[1] is not None for r in dc["CANDIDATE"]):
            return viol("result_missing", "the result database holds no PSM-level result after a successful run")
    # (iii) intermediates created by the observed run are gone (both executions)
    for rp, tag, root in ((rep_d, "dirty", dirty), (rep_c, "clean", clean)):
        for p in rp.get("created", []):
            base = os.path.basename(p)
            if "targets." in base or "decoys." in base:
                continue
            if os.path.exists(p):
                return viol("intermediate_left", f"intermediate file {base} created by the successful run still exists "
                            f"({tag} directory)", which="spill" if "scores_metadata" in base else "level")
    extra = set(after_clean) - {n for n in after_clean if "targets." in n or "decoys." in n}
    if extra:
        return viol("intermediate_left", f"after a successful run in a clean directory these non-result files remain: {sorted(extra)}",
                    which="clean_dir")
    _ = dkinds
    return out


def _run_cli_history(scn, workdir):
    work = Path(workdir)
    tab = W.build_conf_table(scn["table"])
    probes = {"cli": 1}
    faults = {}

    def prep(root):
        os.makedirs(root / "in", exist_ok=True)
        pin = root / "in" / "psms.pin"
        H.write_ragged_pin(pin, tab, scn["ragged_seed"], scn.get("default_direction", False))
        return pin

    rng = random.Random(scn["seed"])
    dirty, clean = work / "dirty", work / "clean"
    pin_d, pin_c = prep(dirty), prep(clean)
    original = pin_d.read_text()
    expected_tsv = H.expected_conversion(original)
    e = {"argv": _cli_args(pin_d, dirty / "out", rng), "fault": scn.get("fault"), "seed": 1}
    rep_e = H.run_cli(e, dirty)
    if rep_e["outcome"] in ("timeout", "harness_error"):
        raise RuntimeError(f"earlier CLI step failed: {rep_e}")
    for f in rep_e.get("fired", []):
        faults[f["kind"]] = faults.get(f["kind"], 0) + 1
        if f["kind"] == "kill_torn":
            probes["torn_write"] = 1
    probes["earlier_killed" if rep_e["outcome"] == "killed" else ("earlier_io_error" if rep_e["outcome"] == "error" else "earlier_clean")] = 1
    debris = H.listing(dirty)
    probes["cli_tsv_leftover"] = int(any(n.endswith(".pin.tsv") for n, _ in debris))
    after_first = pin_d.read_text() if pin_d.exists() else None
    out = {
        "status": "ok",
        "digest": digest([scn["table"], scn["ragged_seed"], scn.get("fault"), digest(debris)]),
        "nontrivial": bool(probes["cli_tsv_leftover"] or rep_e["outcome"] != "ok"),
        "probes": probes,
        "faults": faults,
        "debris_states": [digest(debris)],
        "sample": {"family": 3, "fault": scn.get("fault"), "earlier_outcome": rep_e["outcome"], "debris": debris[:10],
                   "table": scn["table"]},
    }

    def viol(clause, msg, **sig):
        sig["cli"] = True
        out.update(status="violation", clause=clause, message=msg, signature=sig)
        return out

    # the user's file after the first (possibly crashed) run: original or full conversion, never a mixture
    if after_first is None:
        return viol("input_file_lost", "the user's PIN file no longer exists after the interrupted run")
    if after_first not in (original, expected_tsv):
        return viol("input_file_corrupted", f"after the interrupted run the user's PIN is neither the original nor its "
                    f"conversion ({len(after_first.splitlines())} lines vs {len(original.splitlines())})", when="first_run")
    replaced = None
    if scn.get("replace_input"):
        from .. import datagen

        tab2 = W.build_conf_table(dict(scn["table"], data_seed=scn["replace_input"]["data_seed"]))
        for pth in (pin_d, pin_c):
            datagen.write_pin(pth, tab2)
        replaced = pin_d.read_text()
        expected_tsv = replaced  # a valid table: the run must leave it alone
        probes["input_replaced_by_valid_table_between_runs"] = 1
    o = {"argv": _cli_args(pin_d, dirty / "out", rng), "fault": None, "seed": 1}
    rep_d = H.run_cli(o, dirty)
    c = {"argv": _cli_args(pin_c, clean / "out", rng), "fault": None, "seed": 1}
    rep_c = H.run_cli(c, clean)
    for rp in (rep_d, rep_c):
        if rp["outcome"] in ("timeout", "harness_error", "killed"):
            raise RuntimeError(f"observed CLI step failed: {rp}")
    if rep_c["outcome"] != "ok":
        if not is_domain_error(rep_c.get("etype"), rep_c.get("error"), rep_c.get("error")):
            return viol("run_failed", f"the CLI fails even in a clean directory: {rep_c.get('error')}", etype=rep_c.get("etype"))
        out.update(status="uninformative", message=f"clean CLI run fails: {rep_c.get('error')}"[:200])
        return out
    if rep_d["outcome"] != "ok":
        probes["observed_failed_in_dirty_dir"] = 1
        return viol("observed_run_fails_on_debris", f"second CLI run fails after the interrupted first one: {rep_d.get('error')}",
                    etype=rep_d.get("etype"))
    final = pin_d.read_text()
    if final != expected_tsv:
        n_exp = len(expected_tsv.splitlines())
        n_got = len(final.splitlines())
        heads = sum(1 for ln in final.splitlines() if ln == expected_tsv.splitlines()[0])
        return viol("input_file_corrupted", f"after the second run the user's PIN has {n_got} lines ({heads} header lines) "
                    f"instead of the {n_exp}-line {'table the user had put there' if replaced else 'conversion of the original'}; "
                    f"leftovers of the interrupted run were mixed in", when="second_run", replaced=bool(replaced))
    if pin_c.read_text() != expected_tsv:
        return viol("input_file_corrupted", "clean run: converted PIN differs from the expected conversion", when="clean")
    a, b = H.read_dir(dirty / "out"), H.read_dir(clean / "out")
    for name, want in b.items():
        if a.get(name) != want:
            return viol("result_differs", f"CLI result file {name} differs from the clean run", level=name.split(".")[-1])
    left = [n for n, _ in H.listing(dirty) if n.endswith(".tsv")]
    if left and not replaced:  # (a valid input is not converted: a leftover .tsv is then debris the run does not use)
        return viol("intermediate_left", f"temporary conversion file remains after a successful run: {left}", which="tsv")
    return out


def shrink_candidates(scn):
    if scn.get("rollup"):
        if len(scn["tables"]) > 1:
            c = clone(scn); c["tables"] = c["tables"][:-1]; c["score_seeds"] = c["score_seeds"][:-1]; yield c
        if scn["tables"][0].get("level_cols"):
            c = clone(scn)
            for t in c["tables"]:
                t["level_cols"] = []
            yield c
        return
    if scn.get("cli"):
        t = scn["table"]
        if t["n_spectra"] > 45:
            c = clone(scn); c["table"]["n_spectra"] = max(45, int(t["n_spectra"] * 0.8)); yield c
        f = scn.get("fault")
        if f and f["at"] > 0:
            c = clone(scn); c["fault"]["at"] = f["at"] // 2; yield c
            c = clone(scn); c["fault"]["at"] = f["at"] - 1; yield c
        if scn.get("default_direction"):
            c = clone(scn); c["default_direction"] = False; yield c
        return
    if len(scn["earlier"]) > 1:
        for i in range(len(scn["earlier"])):
            c = clone(scn); del c["earlier"][i]; yield c
    for i, e in enumerate(scn["earlier"]):
        if e.get("max_workers", 1) > 1:
            c = clone(scn); c["earlier"][i]["max_workers"] = 1; c["earlier"][i]["sched"] = {"mode": "fifo"}; yield c
        if e["format"] != "pin":
            c = clone(scn); c["earlier"][i]["format"] = "pin"; yield c
        if e.get("fault") and e["fault"]["kind"] != "kill_before":
            c = clone(scn); c["earlier"][i]["fault"] = {"at": e["fault"]["at"], "kind": "kill_before"}; yield c
        if e.get("fasta_seed") is not None:
            c = clone(scn); c["earlier"][i]["fasta_seed"] = None; yield c
        if e["tables"][0].get("level_cols"):
            c = clone(scn); c["earlier"][i]["tables"][0]["level_cols"] = []; yield c
        if e["tables"][0]["n_spectra"] > 45:
            c = clone(scn); c["earlier"][i]["tables"][0]["n_spectra"] = 45; yield c
    o = scn["observed"]
    if o.get("max_workers", 1) > 1:
        c = clone(scn); c["observed"]["max_workers"] = 1; c["observed"]["sched"] = {"mode": "fifo"}; yield c
    if o["format"] != "pin":
        c = clone(scn); c["observed"]["format"] = "pin"; yield c
    for k in list(o.get("knobs") or {}):
        c = clone(scn); del c["observed"]["knobs"][k]; yield c
    if o.get("fasta_seed") is not None:
        c = clone(scn); c["observed"]["fasta_seed"] = None; yield c
    if o["tables"][0].get("level_cols"):
        c = clone(scn); c["observed"]["tables"][0]["level_cols"] = []; yield c
    if o["tables"][0]["n_spectra"] > 45:
        c = clone(scn); c["observed"]["tables"][0]["n_spectra"] = 45; yield c
    if o.get("glob_seed") is not None:
        c = clone(scn); c["observed"]["glob_seed"] = None; yield c
