"""C13 - chunked table reading equals whole reading; writers lose and reorder nothing (World C)."""

from __future__ import annotations

import random

from ..driver import seeds_for
from . import tab_common as tc

PROPERTY = "C13"
LEVEL = "exploration"
QUICK_N = 32
SCENARIO_TIMEOUT = 420
PROBES = ["ops", "reads", "chunked_reads", "multi_chunk_reads", "appends", "finalized", "buffer_flushes", "caller_reused_its_object", "dictionary_typed_parquet", "parquet_from_sliced_frame", "interleaved_iterators", "text_tables_copied"]
RULE = (
    "Hypothesis rule-based state machine run outside pytest, one process per seed: histories of <= 30 operations over <= 6 "
    "tables - open a writer (csv/parquet, buffer size 0,2..9, buffer kind DataFrame/Dicts/Records), append 1-7 rows, "
    "finalise (read back through the associated reader), write() a whole frame, write Parquet with a seeded row-group size, "
    "read any finalised table whole and chunked (chunk size 1, 2, n-1, n, n+1, random) with a seeded column subset/order "
    "through the direct, in-memory-frame, column-renamed, column-joined and computed-column readers. Oracle after every "
    "operation: list-of-rows table model. evaluations = histories (Hypothesis examples); distinct = distinct operation "
    "histories; every history is non-trivial (it executes at least one operation against real files)."
)
ASSUMPTIONS = [
    "values come from a domain both formats represent exactly: int64 within +-1e6, decimals with 6 fractional digits, "
    "strings 's[abcxyz019_]{0,6}' (never an NA/boolean/number spelling), booleans",
    "the computed-column reader is always given an explicit column list (with columns=None both its whole and chunked "
    "read raise the same TypeCheckError today, which the statement does not cover)",
    "chunk lengths are not constrained (the statement does not promise full chunks), only content, order, columns and a "
    "continuing index",
    "no fault is injected: the statement promises nothing after a failed append",
]
REAL = ["mokapot.tabular_data (CSV/Parquet/DataFrame/ColumnMapped readers, CSV/Parquet/Buffered writers)",
        "mokapot.streaming (Joined/Computed readers)", "pandas", "pyarrow", "file system (/dev/shm)"]
STUBS = []


def make_scenario(seed, tier):
    rng = random.Random(seed)
    return {"property": PROPERTY, "seed": seed, "hyp_seed": rng.getrandbits(32),
            "max_examples": 70 if tier == "quick" else 400, "steps": 30, "replay_ops": None}


def scenarios(tier, batch_seed):
    for _i, s in seeds_for(PROPERTY, batch_seed):
        yield make_scenario(s, tier)


def run_scenario(scn, workdir):
    return tc.run_scenario(scn, workdir, "C13")


shrink_candidates = tc.shrink_candidates
