"""File-system seam (S5, S6): mutation-call interception, fault plans, crashes,
torn writes, and directory-listing order.

Every call through which mokapot changes the file system is wrapped once per
process.  Calls get a global *mutation index* 0,1,2,... in execution order
(which the scheduler makes deterministic even with several workers).  A fault
plan names indices at which something goes wrong:

  io_error      raise OSError(ENOSPC) *instead of* the call
  unlink_error  PermissionError from an unlink (io_error for other calls)
  kill_before   the process dies (os._exit(137)) before the call
  kill_after    ... after the call (for buffered file objects: after a flush)
  kill_torn     ... after the call, and the affected file is cut back to a
                length strictly between its old and its new size (torn write)

Only the outermost wrapped call counts (DataFrame.to_parquet constructs a
ParquetWriter internally; Path.unlink calls os.unlink).
"""

from __future__ import annotations

import builtins
import errno
import json
import os
import pathlib
import random
import shutil
import threading

_tls = threading.local()


class InjectedIOError(OSError):
    pass


class FS:
    def __init__(self, plan=None, glob_seed=None, killable=False, report_path=None):
        self.plan = {int(f["at"]): dict(f) for f in (plan or [])}
        self.glob_seed = glob_seed
        self.killable = killable
        self.report_path = report_path
        self.count = 0
        self.log = []  # [k, op, path]
        self.created = []  # paths created (in order)
        self.unlinked = []
        self.fired = []
        self.glob_calls = 0
        self.glob_multi = 0  # listings with >1 entry (where order matters)
        self._saved = None

    # ---------------------------------------------------------------- helpers
    def _size(self, path):
        try:
            return os.path.getsize(path)
        except OSError:
            return None

    def _die(self, fault, k, op, path):
        self.fired.append({"at": k, "kind": fault["kind"], "op": op, "path": str(path)})
        if self.report_path:
            try:
                with open(self.report_path, "w") as fh:
                    json.dump(self.report(), fh)
            except Exception:  # noqa: BLE001
                pass
        os._exit(137)

    def report(self):
        return {
            "count": self.count,
            "log": self.log,
            "created": self.created,
            "unlinked": self.unlinked,
            "fired": self.fired,
            "glob_calls": self.glob_calls,
            "glob_multi": self.glob_multi,
        }

    def _mutate(self, op, path, call, flush=None, creates=False):
        """Run `call()` as mutation number k, applying the planned fault."""
        depth = getattr(_tls, "depth", 0)
        if depth:
            return call()
        k = self.count
        self.count += 1
        spath = str(path) if path is not None else None
        self.log.append([k, op, spath])
        fault = self.plan.get(k)
        if fault is not None:
            kind = fault["kind"]
            if kind == "io_error" or (kind == "unlink_error" and op != "unlink"):
                self.fired.append({"at": k, "kind": "io_error", "op": op, "path": spath})
                raise InjectedIOError(errno.ENOSPC, "No space left on device (injected)", spath)
            if kind == "unlink_error":
                self.fired.append({"at": k, "kind": kind, "op": op, "path": spath})
                raise PermissionError(errno.EACCES, "Permission denied (injected)", spath)
            if kind == "kill_before":
                if not self.killable:
                    raise RuntimeError("kill fault in a non-killable process")
                self._die(fault, k, op, spath)
        old = self._size(spath) if spath else None
        _tls.depth = depth + 1
        try:
            res = call()
        finally:
            _tls.depth = depth
        if creates and spath is not None:
            self.created.append(spath)
        if op == "unlink" and spath is not None:
            self.unlinked.append(spath)
        if fault is not None and fault["kind"] in ("kill_after", "kill_torn"):
            if not self.killable:
                raise RuntimeError("kill fault in a non-killable process")
            if flush is not None:
                flush()
            if fault["kind"] == "kill_torn" and spath and os.path.isfile(spath):
                new = self._size(spath) or 0
                lo = old or 0
                if op in ("to_csv_w", "to_parquet", "pq_init", "open_w"):
                    lo = 0
                if new > lo:
                    frac = float(fault.get("frac", 0.5))
                    cut = lo + int((new - lo) * frac)
                    cut = max(lo, min(new - 1, cut))
                    with open(spath, "r+b") as fh:
                        fh.truncate(cut)
            self._die(fault, k, op, spath)
        return res

    # ------------------------------------------------------------ installing
    def install(self):
        import pandas as pd
        import pyarrow.parquet as pq

        fs = self
        saved = {}
        self._saved = saved

        orig_to_csv = pd.DataFrame.to_csv
        saved["to_csv"] = orig_to_csv

        def to_csv(df, path_or_buf=None, *a, **kw):
            if isinstance(path_or_buf, (str, os.PathLike)):
                mode = kw.get("mode", "w")
                op = "to_csv_a" if "a" in mode else "to_csv_w"
                return fs._mutate(
                    op,
                    path_or_buf,
                    lambda: orig_to_csv(df, path_or_buf, *a, **kw),
                    creates=(op == "to_csv_w"),
                )
            return orig_to_csv(df, path_or_buf, *a, **kw)

        pd.DataFrame.to_csv = to_csv

        orig_to_parquet = pd.DataFrame.to_parquet
        saved["to_parquet"] = orig_to_parquet

        def to_parquet(df, path=None, *a, **kw):
            if isinstance(path, (str, os.PathLike)):
                return fs._mutate(
                    "to_parquet",
                    path,
                    lambda: orig_to_parquet(df, path, *a, **kw),
                    creates=True,
                )
            return orig_to_parquet(df, path, *a, **kw)

        pd.DataFrame.to_parquet = to_parquet

        orig_init = pq.ParquetWriter.__init__
        orig_write = pq.ParquetWriter.write_table
        orig_close = pq.ParquetWriter.close
        saved["pq"] = (orig_init, orig_write, orig_close)

        def pq_init(w, where, *a, **kw):
            w._vsim_path = where if isinstance(where, (str, os.PathLike)) else None
            return fs._mutate(
                "pq_init", w._vsim_path, lambda: orig_init(w, where, *a, **kw), creates=True
            )

        def pq_write(w, *a, **kw):
            return fs._mutate(
                "pq_write", getattr(w, "_vsim_path", None), lambda: orig_write(w, *a, **kw)
            )

        def pq_close(w, *a, **kw):
            if not getattr(w, "is_open", False):
                return orig_close(w, *a, **kw)
            return fs._mutate(
                "pq_close", getattr(w, "_vsim_path", None), lambda: orig_close(w, *a, **kw)
            )

        pq.ParquetWriter.__init__ = pq_init
        pq.ParquetWriter.write_table = pq_write
        pq.ParquetWriter.close = pq_close

        orig_unlink = os.unlink
        orig_remove = os.remove
        saved["unlink"] = (orig_unlink, orig_remove)

        def unlink(path, *a, **kw):
            return fs._mutate("unlink", path, lambda: orig_unlink(path, *a, **kw))

        def remove(path, *a, **kw):
            return fs._mutate("unlink", path, lambda: orig_remove(path, *a, **kw))

        os.unlink = unlink
        os.remove = remove

        orig_move = shutil.move
        saved["move"] = orig_move

        def move(src, dst, *a, **kw):
            return fs._mutate("move", dst, lambda: orig_move(src, dst, *a, **kw))

        shutil.move = move

        # the CLI and confidence.py write through the builtin open(); give those
        # modules a module-level `open` that counts write-mode files
        import sys

        saved["open_mods"] = []

        def make_open():
            def sim_open(file, mode="r", *a, **kw):
                if any(c in mode for c in "wax+") and isinstance(file, (str, os.PathLike)):
                    op = "open_a" if "a" in mode else "open_w"
                    fh = fs._mutate(
                        op,
                        file,
                        lambda: builtins.open(file, mode, *a, **kw),
                        creates=("w" in mode or "x" in mode),
                    )
                    return _CountingFile(fs, fh, file)
                return builtins.open(file, mode, *a, **kw)

            return sim_open

        for name in ("mokapot.mokapot", "mokapot.confidence"):
            mod = sys.modules.get(name)
            if mod is not None:
                had = "open" in mod.__dict__
                saved["open_mods"].append((name, had, mod.__dict__.get("open")))
                mod.__dict__["open"] = make_open()

        if self.glob_seed is not None:
            orig_glob = pathlib.Path.glob
            saved["glob"] = orig_glob

            def glob(p, pattern, *a, **kw):
                items = sorted(orig_glob(p, pattern, *a, **kw))
                fs.glob_calls += 1
                if len(items) > 1:
                    fs.glob_multi += 1
                    random.Random(fs.glob_seed * 1000003 + fs.glob_calls).shuffle(items)
                return iter(items)

            pathlib.Path.glob = glob
        return self

    def uninstall(self):
        import sys

        import pandas as pd
        import pyarrow.parquet as pq

        saved = self._saved
        if not saved:
            return
        pd.DataFrame.to_csv = saved["to_csv"]
        pd.DataFrame.to_parquet = saved["to_parquet"]
        pq.ParquetWriter.__init__, pq.ParquetWriter.write_table, pq.ParquetWriter.close = saved["pq"]
        os.unlink, os.remove = saved["unlink"]
        shutil.move = saved["move"]
        for name, had, orig in saved["open_mods"]:
            mod = sys.modules[name]
            if had:
                mod.__dict__["open"] = orig
            else:
                mod.__dict__.pop("open", None)
        if "glob" in saved:
            pathlib.Path.glob = saved["glob"]
        self._saved = None

    def __enter__(self):
        return self.install()

    def __exit__(self, *exc):
        self.uninstall()
        return False


class _CountingFile:
    """File object whose every write() is a mutation call."""

    def __init__(self, fs, fh, path):
        self._fs = fs
        self._fh = fh
        self._path = path

    def write(self, data):
        return self._fs._mutate(
            "write", self._path, lambda: self._fh.write(data), flush=self._fh.flush
        )

    def writelines(self, lines):
        for line in lines:
            self.write(line)

    def __getattr__(self, name):
        return getattr(self._fh, name)

    def __enter__(self):
        self._fh.__enter__()
        return self

    def __exit__(self, *exc):
        return self._fh.__exit__(*exc)

    def __iter__(self):
        return iter(self._fh)


def listing(directory):
    """(name, size) of every regular file below `directory`, sorted."""
    out = []
    for root, _dirs, files in os.walk(directory):
        for f in files:
            p = os.path.join(root, f)
            try:
                out.append([os.path.relpath(p, directory), os.path.getsize(p)])
            except OSError:
                pass
    return sorted(out)
