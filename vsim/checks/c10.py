"""C10 - every well-formed PIN/Parquet PSM table parses into a faithful dataset.

World D: read_pin under the seeded scheduler (column-scan workers), seeded
column/row scan chunk sizes, text or Parquet with seeded row groups.
Oracle: refmodel.parse_model (plain Python over the generated table).
"""

from __future__ import annotations

import math
import random
from pathlib import Path

from .. import datagen, refmodel, world
from ..driver import clone, seeds_for
from ..util import digest, exc_site, short_msg

PROPERTY = "C10"
SCHED_PATH = ("sched",)
LEVEL = "exploration"
QUICK_N = 640
SCENARIO_TIMEOUT = 120
RULE = (
    "Seeded well-formed tables (1-60 features, shuffled column order, random letter case of reserved "
    "names, optional filename/calcmass/expmass/ret_time and rollup-level columns, 3 label encodings, "
    "NaNs planted in 0-3 feature columns) and malformed variants, as text or Parquet (seeded row groups), "
    "parsed by read_pin with max_workers 1..8 under a seeded thread schedule and seeded column/row scan "
    "chunk sizes; in a quarter of the scenarios the same path held another table that was parsed earlier in the same process. distinct = distinct (table parameters, format, knobs, workers, schedule digest); "
    "non-trivial = the column scan was split into >= 2 column chunks or >= 2 row chunks, or the table is "
    "a malformed variant, or NaNs were planted."
)
ASSUMPTIONS = [
    "CHUNK_SIZE_COLUMNS_FOR_DROP_COLUMNS in 1..25 (values below the identifier width included since the "
    "identifier-chunk repair)",
    "no literal 'charge*' column is generated (the statement leaves its reserved status open)",
    "feature values are finite floats/ints with exact text round trip; NaN = empty cell / Parquet null",
    "pandas/pyarrow as installed run unmodified",
]
REAL = ["mokapot.parsers.pin", "mokapot.tabular_data", "mokapot.dataset.OnDiskPsmDataset", "pandas", "pyarrow",
        "file system (/dev/shm)"]
STUBS = ["joblib.Parallel -> vsim.sched.SimParallel (seeded baton-passing threads)"]
PROBES = ["col_chunks>=2", "row_chunks>=2", "identifier_own_chunk", "nan_planted", "malformed", "parquet",
          "workers>1", "switches>0", "case_mangled", "n_feat_mod_chunk==0", "multi_rowgroup", "path_parsed_before_with_other_table",
          "parquet_dictionary_typed_strings", "parquet_written_from_sliced_frame", "missing_value_spelled_out",
          "parquet_missing_values_stored_as_nan"]


def _mangle_case(rng, name):
    mode = rng.randrange(4)
    if mode == 0:
        return name
    if mode == 1:
        return name.lower()
    if mode == 2:
        return name.upper()
    return "".join(c.upper() if rng.random() < 0.5 else c.lower() for c in name)


def build_table(p):
    """Deterministically build the table described by parameter dict p."""
    rng = random.Random(p["data_seed"])
    t = datagen.gen_table(
        rng,
        n_spectra=p["n_spectra"],
        max_per_spectrum=p["max_per_spectrum"],
        n_features=p["n_features"],
        spec_extra=p["spec_extra"],
        calcmass=p["calcmass"],
        label_enc=p["label_enc"],
        level_cols=p["level_cols"],
        tag=False,
    )
    cols = list(t["columns"])
    rows = [list(r) for r in t["rows"]]
    n = len(rows)
    # plant NaNs
    feats = [c for c in cols if c.startswith("feat")]
    nan_cols = []
    for _ in range(p["nan_cols"]):
        c = rng.choice(feats)
        nan_cols.append(c)
        i = cols.index(c)
        k = rng.choice([1, 1, 2, max(1, n // 3), n])
        where = rng.choice(["first", "last", "random"])
        if where == "first":
            idx = list(range(k))
        elif where == "last":
            idx = list(range(n - k, n))
        else:
            idx = rng.sample(range(n), min(k, n))
        for j in idx:
            rows[j][i] = None
    # integer-valued feature columns now and then (text readers type a column from its first rows; a missing value
    # further down must still be found)
    if p.get("int_feature") and feats:
        k_int = 1 + (p["data_seed"] % 3)
        for c in ([feats[-1]] + nan_cols)[:k_int]:
            i = cols.index(c)
            for r in rows:
                if r[i] is not None:
                    r[i] = int(round(r[i] * 10))
    # feature names that merely resemble reserved names are ordinary features
    if p.get("lookalike") and feats:
        alike = ["Labels", "PeptideLen", "scannr2", "ProteinsCount", "ExpMassDiff", "filename_len", "ret_time2", "SpecIdNum",
                 "Precursors", "CalcMassErr"]
        rng.shuffle(alike)
        ren = dict(zip(feats[: min(len(feats), 3)], alike))
        cols = [ren.get(c, c) for c in cols]
        nan_cols = [ren.get(c, c) for c in nan_cols]
    # rename (case) and permute
    if p["mangle"]:
        ren = {}
        for c in cols:
            if c.lower() in refmodel.RESERVED + refmodel.LEVELS + refmodel.OPTIONAL:
                ren[c] = _mangle_case(rng, c)
        cols = [ren.get(c, c) for c in cols]
    if p["permute"]:
        perm = list(range(len(cols)))
        rng.shuffle(perm)
        cols = [cols[i] for i in perm]
        rows = [[r[i] for i in perm] for r in rows]
    mal = p.get("malformed")
    if mal == "bad_label":
        li = [c.lower() for c in cols].index("label")
        j = rng.randrange(n)
        rows[j][li] = rng.choice([2, -2, 5, 255, 256, 257, -255, -257, 511, 1000, 65537])
        for r in rows:  # bool labels cannot carry an out-of-range value
            if isinstance(r[li], bool):
                r[li] = 1 if r[li] else -1
        rows[j][li] = rng.choice([2, -2, 5, 255, 256, 257, -255, -257, 511, 1000, 65537])
    elif mal and mal.startswith("drop:"):
        want = mal.split(":", 1)[1]
        i = [c.lower() for c in cols].index(want)
        cols.pop(i)
        rows = [r[:i] + r[i + 1 :] for r in rows]
    t2 = {"columns": cols, "rows": rows, "meta": dict(t["meta"])}
    t2["meta"]["nan_cols"] = nan_cols
    return t2


def make_scenario(seed):
    rng = random.Random(seed)
    n_feat = rng.randint(1, 60)
    spec_extra = [c for c in ("filename", "ret_time", "ExpMass") if rng.random() < 0.5]
    p = {
        "data_seed": rng.getrandbits(32),
        "n_spectra": rng.randint(3, 60),
        "max_per_spectrum": rng.randint(1, 3),
        "n_features": n_feat,
        "spec_extra": spec_extra,
        "calcmass": rng.random() < 0.4,
        "label_enc": rng.choice(["pm1", "10", "bool"]),
        "level_cols": [c for c in ("ModifiedPeptide", "Precursor", "PeptideGroup") if rng.random() < 0.3],
        "nan_cols": rng.choice([0, 0, 1, 2, 3]),
        "int_feature": rng.random() < 0.35,
        "lookalike": rng.random() < 0.3,
        "mangle": rng.random() < 0.6,
        "permute": rng.random() < 0.6,
        "malformed": None,
    }
    r = rng.random()
    if r < 0.08:
        p["malformed"] = "bad_label"
    elif r < 0.2:
        p["malformed"] = "drop:" + rng.choice(["specid", "scannr", "peptide", "proteins", "label"])
    fmt = rng.choice(["pin", "pin", "parquet"])
    n_rows_guess = len(build_table(p)["rows"])  # exact
    workers = rng.choice([1, 2, 2, 3, 4, 8])
    kn = {
        "CHUNK_SIZE_COLUMNS_FOR_DROP_COLUMNS": rng.choice([1, 2, 3, 4, 5]) if rng.random() < 0.15 else rng.randint(6, 25),
        "CHUNK_SIZE_ROWS_FOR_DROP_COLUMNS": datagen.knob_value(rng, n_rows_guess),
    }
    prev = None
    if rng.random() < 0.25:
        # the same path held ANOTHER well-formed table that was parsed earlier in this process
        prev = dict(p)
        prev.update(data_seed=rng.getrandbits(32), n_features=rng.randint(1, 60), malformed=None,
                    mangle=rng.random() < 0.5, permute=rng.random() < 0.5,
                    spec_extra=[c for c in ("filename", "ret_time", "ExpMass") if rng.random() < 0.5],
                    level_cols=[c for c in ("ModifiedPeptide", "Precursor", "PeptideGroup") if rng.random() < 0.3])
    return {
        "property": PROPERTY,
        "seed": seed,
        "prev_table": prev,
        "table": p,
        "format": fmt,
        "row_group": rng.choice([None, 1, 2, 7, n_rows_guess // 2 + 1]) if fmt == "parquet" else None,
        "max_workers": workers,
        "knobs": kn,
        "sched": world.gen_sched(rng, workers, est_steps=500),
        # Parquet written by other tools: low-cardinality strings dictionary-typed; index metadata of a sliced pandas frame
        "dict_strings": fmt == "parquet" and rng.random() < 0.35,
        "index_start": rng.choice([1, 40, 10**6]) if fmt == "parquet" and rng.random() < 0.3 else 0,
        # missing values of floating-point columns stored as NaN values instead of nulls (files not written by pandas)
        "nan_values": fmt == "parquet" and random.Random(f"nanv|{seed}").random() < 0.4,
        # how a text file spells a missing value
        "na_token": rng.choice(["", "", "NA", "N/A", "null", "NaN", "nan", "#N/A", "NULL"]) if fmt != "parquet" else "",
    }


def scenarios(tier, batch_seed):
    for _i, s in seeds_for(PROPERTY, batch_seed):
        yield make_scenario(s)


def run_scenario(scn, workdir):
    import mokapot

    table = build_table(scn["table"])
    ext = ".parquet" if scn["format"] == "parquet" else ".pin"
    path = Path(workdir) / f"input{ext}"
    if scn.get("prev_table"):
        world.materialise(build_table(scn["prev_table"]), path, scn["format"], scn.get("row_group"))
        try:
            mokapot.read_pin([path], max_workers=1)
        except Exception:  # noqa: BLE001 - only its side effects on process state matter here
            pass
        path.unlink()
    world.materialise(table, path, scn["format"], scn.get("row_group"), dict_strings=bool(scn.get("dict_strings")),
                      index_start=int(scn.get("index_start") or 0), na_token=scn.get("na_token") or "",
                      nan_values=bool(scn.get("nan_values")))
    mal = scn["table"].get("malformed")
    n_rows = len(table["rows"])
    ccs = scn["knobs"]["CHUNK_SIZE_COLUMNS_FOR_DROP_COLUMNS"]
    rcs = scn["knobs"]["CHUNK_SIZE_ROWS_FOR_DROP_COLUMNS"]
    expected = None
    if not mal:
        expected = refmodel.parse_model(table)
    n_scan_cols = None

    err = None
    ds = None
    with world.sim_env(scn.get("sched"), scn.get("knobs")) as (sch, _fs):
        try:
            ds = mokapot.read_pin([path], max_workers=scn["max_workers"])[0]
        except Exception as exc:  # noqa: BLE001
            err = exc
    sstats = sch.stats()
    probes = {
        "malformed": int(bool(mal)),
        "nan_planted": int(bool(table["meta"]["nan_cols"])),
        "parquet": int(scn["format"] == "parquet"),
        "parquet_dictionary_typed_strings": int(bool(scn.get("dict_strings"))),
        "parquet_written_from_sliced_frame": int(bool(scn.get("index_start"))),
        "parquet_missing_values_stored_as_nan": int(bool(scn.get("nan_values"))),
        "missing_value_spelled_out": int(bool(scn.get("na_token")) and bool(scn["table"].get("nan_cols"))),
        "workers>1": int(scn["max_workers"] > 1),
        "switches>0": int(sstats["switches"] > sstats["parallel_calls"]),
        "case_mangled": int(bool(scn["table"]["mangle"])),
        "row_chunks>=2": int(rcs < n_rows),
        "multi_rowgroup": int(scn["format"] == "parquet" and bool(scn.get("row_group")) and scn["row_group"] < n_rows),
        "path_parsed_before_with_other_table": int(bool(scn.get("prev_table"))),
    }
    if expected is not None:
        nf_all = len([c for c in table["columns"] if c.lower() not in
                      refmodel.RESERVED + refmodel.LEVELS + refmodel.OPTIONAL])
        ident = len(expected["spectrum_columns"]) + 1
        n_scan_cols = nf_all + ident
        probes["col_chunks>=2"] = int(n_scan_cols > ccs)
        probes["identifier_own_chunk"] = int(n_scan_cols % ccs == 1)
        probes["n_feat_mod_chunk==0"] = int(nf_all % ccs == 0)
    nontrivial = bool(probes.get("col_chunks>=2") or probes["row_chunks>=2"] or mal or probes["nan_planted"])
    out = {
        "status": "ok",
        "digest": digest([scn["table"], scn.get("prev_table"), scn["format"], scn.get("row_group"), scn["knobs"], scn["max_workers"],
                          world.sched_digest(sch)]),
        "nontrivial": nontrivial,
        "probes": probes,
        "sched": sstats,
        "sched_digests": [world.sched_digest(sch)],
        "knobs": scn["knobs"],
        "schedule": world.explicit_schedule(sch),
        "sample": {"table": scn["table"], "format": scn["format"], "row_group": scn.get("row_group"),
                   "knobs": scn["knobs"], "max_workers": scn["max_workers"], "sched": scn.get("sched"),
                   "n_rows": n_rows, "n_scan_columns": n_scan_cols},
    }

    def viol(clause, msg, **sig):
        out.update(status="violation", clause=clause, message=msg, signature=sig)
        return out

    if mal:
        if err is None:
            return viol("malformed_accepted", f"malformed input ({mal}) was parsed without error", malformed=mal.split(":")[0])
        if not isinstance(err, ValueError):
            return viol("malformed_wrong_error", f"malformed input ({mal}) raised {short_msg(err)} instead of a ValueError",
                        malformed=mal.split(":")[0], etype=type(err).__name__, site=exc_site(err))
        return out
    if err is not None:
        return viol("parse_failed", f"well-formed table failed to parse: {short_msg(err)} at {exc_site(err)} "
                    f"(features={len(expected['feature_columns'])}, scan columns={n_scan_cols}, column chunk={ccs})",
                    etype=type(err).__name__, site=exc_site(err))

    # ------------------------------------------------------------ compare
    sd = ds.spectra_dataframe
    if len(sd) != expected["n_rows"]:
        return viol("row_count", f"{len(sd)} entries for {expected['n_rows']} input rows")
    if list(ds.spectrum_columns) != expected["spectrum_columns"]:
        return viol("spectrum_key", f"spectrum key {list(ds.spectrum_columns)} != {expected['spectrum_columns']}")
    if list(ds.feature_columns) != expected["feature_columns"]:
        missing = [c for c in expected["feature_columns"] if c not in ds.feature_columns]
        extra = [c for c in ds.feature_columns if c not in expected["feature_columns"]]
        return viol("feature_columns", f"features differ: missing={missing[:5]} extra={extra[:5]} "
                    f"(order differs only: {not missing and not extra})",
                    kind="missing" if missing else ("extra" if extra else "order"))
    got_t = [bool(v) for v in sd[ds.target_column].tolist()]
    if got_t != expected["targets"]:
        bad = [i for i, (a, b) in enumerate(zip(got_t, expected["targets"])) if a != b]
        return viol("targets", f"target flags differ at rows {bad[:8]}")
    for j, c in enumerate(expected["spectrum_columns"]):
        got = sd[c].tolist()
        exp = [r[j] for r in expected["spectra_rows"]]
        for i, (a, b) in enumerate(zip(got, exp)):
            same = (a == b) or (isinstance(a, float) and isinstance(b, float) and math.isclose(a, b, rel_tol=0, abs_tol=0))
            if not same:
                return viol("row_order_or_values", f"spectrum column {c} row {i}: {a!r} != {b!r}")
    idx = list(sd.index)
    if idx != list(range(len(sd))):
        return viol("row_index", f"spectra frame index is not 0..n-1 in file order: {idx[:10]}")
    for c in ds.metadata_columns:
        if c not in table["columns"]:
            return viol("metadata_columns", f"metadata column {c} is not a column of the file")
    return out


def shrink_candidates(scn):
    p = scn["table"]
    if scn.get("prev_table"):
        c = clone(scn); c["prev_table"] = None; yield c
    if scn["max_workers"] > 1:
        c = clone(scn); c["max_workers"] = 1; c["sched"] = {"mode": "fifo"}; yield c
    if scn["format"] != "pin":
        c = clone(scn); c["format"] = "pin"; c["row_group"] = None; yield c
    for k in ("mangle", "permute", "int_feature", "calcmass", "lookalike"):
        if p.get(k):
            c = clone(scn); c["table"][k] = False; yield c
    if p["nan_cols"]:
        c = clone(scn); c["table"]["nan_cols"] = 0; yield c
    if p["level_cols"]:
        c = clone(scn); c["table"]["level_cols"] = []; yield c
    if p["spec_extra"]:
        for x in list(p["spec_extra"]):
            c = clone(scn); c["table"]["spec_extra"] = [y for y in p["spec_extra"] if y != x]; yield c
    if scn["knobs"].get("CHUNK_SIZE_ROWS_FOR_DROP_COLUMNS", 10**9) < 10**9:
        c = clone(scn); c["knobs"]["CHUNK_SIZE_ROWS_FOR_DROP_COLUMNS"] = 10**9; yield c
    if scn["knobs"].get("CHUNK_SIZE_COLUMNS_FOR_DROP_COLUMNS") != 19:
        c = clone(scn); c["knobs"]["CHUNK_SIZE_COLUMNS_FOR_DROP_COLUMNS"] = 19; yield c
    if p["n_spectra"] > 3:
        c = clone(scn); c["table"]["n_spectra"] = max(3, p["n_spectra"] // 2); yield c
    if p["max_per_spectrum"] > 1:
        c = clone(scn); c["table"]["max_per_spectrum"] = 1; yield c
    if p["n_features"] > 1:
        for nf in (p["n_features"] // 2, p["n_features"] - 1):
            if nf >= 1:
                c = clone(scn); c["table"]["n_features"] = nf; yield c
    if p["label_enc"] != "pm1":
        c = clone(scn); c["table"]["label_enc"] = "pm1"; yield c
