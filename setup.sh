#!/bin/sh
# Offline setup: nothing is built.  Verify the interpreter, mokapot (from /repo) and hypothesis.
set -e
cd "$(dirname "$0")"
PY=/venv/bin/python
if ! $PY -c "import hypothesis" 2>/dev/null; then
  /venv/bin/pip install --no-index --find-links /opt/veriftools/wheels hypothesis >/dev/null
fi
PYTHONPATH=/repo $PY - <<'PY'
import os, mokapot, hypothesis, numpy, pandas, pyarrow
assert os.path.abspath(mokapot.__file__).startswith("/repo/"), mokapot.__file__
print("setup ok: mokapot from", os.path.dirname(mokapot.__file__), "hypothesis", hypothesis.__version__)
PY
mkdir -p evidence
