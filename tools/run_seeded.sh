#!/bin/sh
# For every seeded change: git -C /repo apply <patch>; run the property's quick check; git -C /repo checkout -- .
# Evidence and replay files of these runs go to a scratch directory. Prints one line per seed.
# usage: tools/run_seeded.sh [ids...]
cd "$(dirname "$0")/.."
IDS=${*:-$(ls seeded | grep -v RESULTS)}
OUT=$(mktemp -d /dev/shm/vsim-seeded-XXXXXX)
export VERIF_EVIDENCE_DIR=$OUT/evidence VERIF_REPLAY_DIR=$OUT/replays VERIF_MINIMISE_S=15
if [ -n "$(git -C /repo status --porcelain --untracked-files=no)" ]; then echo "/repo has uncommitted changes; refusing"; exit 2; fi
missed=0
for id in $IDS; do
  prop=$(echo $id | cut -d- -f1)
  if grep -q '"status": "missed"' seeded/$id/meta.json; then echo "$id: skipped (recorded as an open gap, see meta.json)"; continue; fi
  other=$(grep -o '"run_seeded_check": "C[0-9]*"' seeded/$id/meta.json | grep -o 'C[0-9]*$'); [ -n "$other" ] && prop=$other
  if grep -q '"inert_since"' seeded/$id/meta.json; then echo "$id: skipped (inert on the repaired tree, see meta.json)"; continue; fi
  git -C /repo apply "$(pwd)/seeded/$id/patch.diff" || { echo "$id: patch does not apply"; missed=$((missed+1)); continue; }
  timeout 1500 ./check $prop --tier quick > $OUT/$id.log 2>&1
  rc=$?
  git -C /repo checkout -- .
  clauses=$(grep "^clause:" $OUT/$id.log | sort -u | tr '\n' ' ')
  if [ $rc -eq 1 ] && grep -q "^VIOLATION property=" $OUT/$id.log; then echo "$id: caught ($clauses)"; else echo "$id: MISSED rc=$rc"; missed=$((missed+1)); fi
done
rm -rf $OUT
echo "seeded run done: missed=$missed"
[ $missed -eq 0 ]
