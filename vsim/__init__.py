"""vsim — deterministic simulation with fault injection for wfondrie/mokapot.

See /verif/DESIGN.md.  Nothing in here is imported by mokapot; the simulator
owns mokapot's sources of nondeterminism from the outside (module-level
``Parallel`` names, chunk-size module globals, ``Path.glob``, file mutation
calls, the estimator API, PYTHONHASHSEED).
"""
