"""C02 - cross-validation integrity (World A)."""

from __future__ import annotations

from ..driver import seeds_for
from . import pipe_common as pc

PROPERTY = "C02"
SCHED_PATH = ("sched",)
LEVEL = "exploration"
QUICK_N = 320
SCENARIO_TIMEOUT = 180
PROBES = [p for p in pc.PROBES if p not in ['fold_without_accept', 'tied_raw_outputs', 'output_on_another_scale']]
RULE = (
    "Seeded PSM data sets (1-3 files, 40-140 spectra each, 1-4 PSMs per spectrum, spectrum key of 1-4 columns, "
    "3 label encodings, text or Parquet) are parsed with read_pin and rescored with brew (folds 2-6, "
    "subset_max_train absent / binding / not binding, max_workers 1-8) through a recording estimator whose "
    "tag feature identifies every row it is fitted on or scores; worker threads run under the seeded scheduler "
    "(random-switch or PCT) with seeded training-read / prediction chunk sizes. Oracle: fold-integrity model "
    "over the recorded fit/predict rows. distinct = distinct (data, config, format, knobs, schedule digest); "
    "non-trivial = more than one worker, or >= 2 prediction/training chunks, or several files, or a training cap."
)
ASSUMPTIONS = [
    "PSMs per spectrum <= 4 and >= ~30 rows per fold (keeps mokapot's _split inside its domain)",
    "the estimator sees exactly what Model.fit/_get_scores hand to it (rows labelled +-1 during training)",
    "thresholds are values no ratio (D+1)/T equals (0.1037, 0.2113, 0.3071)",
]
REAL = ["mokapot.brew", "mokapot.parsers.pin", "mokapot.dataset", "mokapot.model.Model", "pandas", "pyarrow",
        "file system (/dev/shm)"]
STUBS = ["joblib.Parallel -> vsim.sched.SimParallel", "estimator -> vsim.estimators.RecordingLDA (closed-form LDA + recording)"]


def scenarios(tier, batch_seed):
    for _i, s in seeds_for(PROPERTY, batch_seed):
        yield pc.make_scenario(PROPERTY, s)


def run_scenario(scn, workdir):
    return pc.run_scenario(scn, workdir, "C02")


shrink_candidates = pc.shrink_candidates
