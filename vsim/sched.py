"""Seeded cooperative scheduler and a drop-in replacement for joblib.Parallel.

Real threads, but exactly one of them holds the *baton* at any time; every
other one is parked on a private semaphore.  Who gets the baton next is
decided at *yield points* (task start, task end, every executed line of
mokapot source inside a task) from one ``random.Random`` stream, so a run is a
pure function of (scenario, code).

Contract reproduced from joblib (threading backend, which is what
``require="sharedmem"`` selects):
  * results are returned in submission order;
  * at most ``n_jobs`` tasks are in flight;
  * the task iterable is consumed lazily: ``pre_dispatch`` (2*n_jobs) tasks up
    front, one more each time a task completes, always under joblib's dispatch
    lock - here: with pre-emption disabled;
  * ``n_jobs == 1`` runs everything inline in the caller's thread;
  * when a task raises, no further task is dispatched, tasks in flight finish,
    and the error is re-raised in the caller;
  * without ``require="sharedmem"`` joblib may use processes: arguments are
    then pickled, so a task's mutations of its arguments are lost.  SimParallel
    emulates that with a pickle round trip per task.
"""

from __future__ import annotations

import os
import pickle
import random
import sys
import threading
from collections import Counter, deque


class StepCapExceeded(RuntimeError):
    """The run executed more yield points than its cap allows (livelock)."""


class SimDeadlock(RuntimeError):
    pass


_tls = threading.local()


def _mokapot_dir():
    import mokapot

    return os.path.dirname(os.path.abspath(mokapot.__file__)) + os.sep


class _Worker:
    __slots__ = ("wid", "sem", "done", "started", "group", "no_preempt", "prio")

    def __init__(self, wid, group):
        self.wid = wid
        self.sem = threading.Semaphore(0)
        self.done = False
        self.started = False
        self.group = group
        self.no_preempt = 0
        self.prio = 0


class Scheduler:
    """Decides every interleaving of one simulated run.

    mode:
      "random"   switch with probability ``switch_p`` at line yield points and
                 ``boundary_p`` at task boundaries, target uniform.
      "pct"      PCT-style: random thread priorities, ``pct_d`` priority change
                 points at random steps in [1, est_steps]; always run the
                 highest-priority runnable worker.
      "explicit" ``explicit`` = list of [step, wid]; at that step hand the baton
                 to wid (if runnable); otherwise keep running; when the current
                 worker ends, lowest wid.  Used for replay and minimisation.
      "fifo"     never pre-empt; when a worker ends pick lowest wid.
    """

    def __init__(
        self,
        seed=0,
        mode="random",
        switch_p=0.05,
        boundary_p=0.5,
        pct_d=2,
        est_steps=4000,
        explicit=None,
        step_cap=3_000_000,
        trace_lines=True,
        lookahead_factor=2,
    ):
        self.seed = seed
        self.rng = random.Random(seed)
        self.mode = mode
        self.switch_p = switch_p
        self.boundary_p = boundary_p
        self.pct_d = pct_d
        self.est_steps = est_steps
        self.explicit = {int(s): int(w) for s, w in (explicit or [])}
        self.step_cap = step_cap
        self.trace_lines = trace_lines
        self.lookahead_factor = lookahead_factor

        self.step = 0  # logical time
        self.switches = []  # [(step, to_wid)] - the explicit form of this run
        self.n_calls = 0  # SimParallel invocations with real workers
        self.n_inline_calls = 0
        self.n_tasks = 0
        self.switch_sites = Counter()  # co_name where a pre-emption happened
        self.task_order = []  # (call#, task index) in order of *start*
        self.finish_order = []  # (call#, task index) in order of completion
        self.max_inflight = 0
        self._change_points = set()
        if mode == "pct":
            self._change_points = {
                self.rng.randint(1, max(1, est_steps)) for _ in range(pct_d)
            }
        self._moka_dir = None

    # ------------------------------------------------------------------ API
    def digest_material(self):
        return (tuple(self.switches), tuple(self.task_order), tuple(self.finish_order))

    def stats(self):
        return {
            "steps": self.step,
            "switches": len(self.switches),
            "parallel_calls": self.n_calls,
            "inline_calls": self.n_inline_calls,
            "tasks": self.n_tasks,
            "max_inflight": self.max_inflight,
            "switch_sites": dict(self.switch_sites),
        }

    # ------------------------------------------------------------ decisions
    def _runnable(self, group, exclude=None):
        return [w for w in group.workers if not w.done and w is not exclude]

    def _pick_other(self, group, cur):
        """Pick the worker that continues when `cur` cannot (it ended)."""
        cands = self._runnable(group, exclude=cur)
        if not cands:
            return None
        if self.mode == "random":
            return self.rng.choice(cands)
        if self.mode == "pct":
            return max(cands, key=lambda w: w.prio)
        if self.mode == "explicit":
            wid = self.explicit.get(self.step)
            for w in cands:
                if w.wid == wid:
                    return w
        return min(cands, key=lambda w: w.wid)

    def _decide(self, group, cur, kind):
        """Return the worker that holds the baton after this yield point."""
        if self.mode == "random":
            p = self.switch_p if kind == "line" else self.boundary_p
            if self.rng.random() < p:
                cands = self._runnable(group, exclude=cur)
                if cands:
                    return self.rng.choice(cands)
            return cur
        if self.mode == "pct":
            if self.step in self._change_points:
                cur.prio = min(w.prio for w in group.workers) - 1
            cands = self._runnable(group)
            return max(cands, key=lambda w: w.prio)
        if self.mode == "explicit":
            wid = self.explicit.get(self.step)
            if wid is not None and wid != cur.wid:
                for w in self._runnable(group, exclude=cur):
                    if w.wid == wid:
                        return w
            return cur
        return cur

    # ---------------------------------------------------------- yield point
    def yield_point(self, worker, kind, frame=None):
        if worker.no_preempt:
            return
        self.step += 1
        if self.step > self.step_cap:
            raise StepCapExceeded(f"step cap {self.step_cap} exceeded")
        nxt = self._decide(worker.group, worker, kind)
        if nxt is not worker:
            if frame is not None:
                self.switch_sites[frame.f_code.co_name] += 1
            else:
                self.switch_sites["<" + kind + ">"] += 1
            self.switches.append((self.step, nxt.wid))
            nxt.sem.release()
            worker.sem.acquire()

    def worker_ended(self, worker):
        """`worker` has no more work: hand the baton on (or back to the caller)."""
        self.step += 1
        worker.done = True
        nxt = self._pick_other(worker.group, worker)
        if nxt is None:
            worker.group.caller_sem.release()
        else:
            self.switches.append((self.step, nxt.wid))
            nxt.sem.release()

    # -------------------------------------------------------------- tracing
    def make_tracer(self, worker):
        if self._moka_dir is None:
            self._moka_dir = _mokapot_dir()
        moka = self._moka_dir
        yp = self.yield_point

        def local_trace(frame, event, arg):
            if event == "line":
                yp(worker, "line", frame)
            return local_trace

        def global_trace(frame, event, arg):
            if frame.f_code.co_filename.startswith(moka):
                return local_trace
            return None

        return global_trace


class _Group:
    def __init__(self, sched, n_workers, iterable, lookahead, pickle_args):
        self.sched = sched
        self.iterator = iter(iterable)
        self.exhausted = False
        self.queue = deque()
        self.next_index = 0
        self.results = {}
        self.errors = {}
        self.inflight = 0
        self.caller_sem = threading.Semaphore(0)
        self.workers = [_Worker(i, self) for i in range(n_workers)]
        self.lookahead = lookahead
        self.pickle_args = pickle_args
        self.call_no = sched.n_calls

    def pull(self, k):
        """Consume up to k tasks from the iterable (atomic: no pre-emption)."""
        for _ in range(k):
            if self.exhausted or self.errors:
                return
            try:
                task = next(self.iterator)
            except StopIteration:
                self.exhausted = True
                return
            self.queue.append((self.next_index, task))
            self.next_index += 1


def _run_task(task, pickle_args):
    func, args, kwargs = task
    if pickle_args:
        args, kwargs = pickle.loads(pickle.dumps((args, kwargs)))
    return func(*args, **kwargs)


class SimParallel:
    """Stand-in for ``joblib.Parallel`` driven by a :class:`Scheduler`."""

    def __init__(self, sched, n_jobs=None, require=None, **kwargs):
        self.sched = sched
        if n_jobs is None:
            n_jobs = 1
        if n_jobs < 0:
            n_jobs = max(1, (os.cpu_count() or 1) + 1 + n_jobs)
        if n_jobs == 0:
            raise ValueError("n_jobs == 0 in Parallel has no meaning")
        self.n_jobs = int(n_jobs)
        self.require = require
        self.kwargs = kwargs

    def __call__(self, iterable):
        sched = self.sched
        nested = getattr(_tls, "worker", None) is not None
        if self.n_jobs == 1 or nested:
            sched.n_inline_calls += 1
            out = []
            for task in iterable:
                sched.n_tasks += 1
                out.append(_run_task(task, False))
            return out

        pickle_args = self.require != "sharedmem"
        lookahead = max(self.n_jobs, int(sched.lookahead_factor * self.n_jobs))
        sched.n_calls += 1
        group = _Group(sched, self.n_jobs, iterable, lookahead, pickle_args)
        group.pull(lookahead)
        if not group.queue:
            return []

        threads = []
        for w in group.workers:
            t = threading.Thread(
                target=self._worker_main, args=(w,), name=f"sim-worker-{w.wid}"
            )
            t.daemon = True
            threads.append(t)
            t.start()

        # hand the baton to a first worker and wait until all are done
        sched.step += 1
        first = sched._pick_other(group, None)
        sched.switches.append((sched.step, first.wid))
        first.sem.release()
        group.caller_sem.acquire()
        for t in threads:
            t.join()

        if group.errors:
            idx = min(group.errors)
            raise group.errors[idx]
        return [group.results[i] for i in range(group.next_index)]

    def _worker_main(self, w):
        group = w.group
        sched = self.sched
        w.sem.acquire()  # wait for the baton
        _tls.worker = w
        tracer = sched.make_tracer(w) if sched.trace_lines else None
        try:
            while True:
                if not group.queue or group.errors:
                    break
                idx, task = group.queue.popleft()
                group.inflight += 1
                sched.n_tasks += 1
                sched.max_inflight = max(sched.max_inflight, group.inflight)
                sched.task_order.append((group.call_no, idx))
                try:
                    sched.yield_point(w, "task_start")
                    if tracer is not None:
                        sys.settrace(tracer)
                    try:
                        res = _run_task(task, group.pickle_args)
                    finally:
                        if tracer is not None:
                            sys.settrace(None)
                    group.results[idx] = res
                except BaseException as exc:  # noqa: BLE001 - re-raised in caller
                    group.errors[idx] = exc
                group.inflight -= 1
                sched.finish_order.append((group.call_no, idx))
                # joblib's completion callback dispatches one more task
                w.no_preempt += 1
                try:
                    group.pull(1)
                except BaseException as exc:  # noqa: BLE001
                    group.errors[group.next_index] = exc
                    group.exhausted = True
                finally:
                    w.no_preempt -= 1
                try:
                    sched.yield_point(w, "task_end")
                except StepCapExceeded as exc:
                    group.errors.setdefault(idx, exc)
        finally:
            _tls.worker = None
            sched.worker_ended(w)


# ---------------------------------------------------------------- installation
_PATCHED_MODULES = ("mokapot.brew", "mokapot.parsers.pin", "mokapot.confidence")


class _Factory:
    def __init__(self, sched):
        self.sched = sched

    def __call__(self, n_jobs=None, **kwargs):
        return SimParallel(self.sched, n_jobs=n_jobs, **kwargs)


def install(sched):
    """Rebind the module-level name ``Parallel`` in mokapot to SimParallel."""
    saved = {}
    fac = _Factory(sched)
    for name in _PATCHED_MODULES:
        mod = sys.modules.get(name)
        if mod is None:
            __import__(name)
            mod = sys.modules[name]
        if not hasattr(mod, "Parallel"):
            raise RuntimeError(f"seam lost: {name}.Parallel does not exist")
        saved[name] = mod.Parallel
        mod.Parallel = fac
    # any other mokapot module that grew a Parallel is patched too
    for name, mod in list(sys.modules.items()):
        if (
            name.startswith("mokapot")
            and mod is not None
            and name not in saved
            and hasattr(mod, "Parallel")
            and type(mod).__name__ == "module"
        ):
            saved[name] = mod.Parallel
            mod.Parallel = fac
    return saved


def uninstall(saved):
    for name, orig in saved.items():
        sys.modules[name].Parallel = orig


class simulated:
    """Context manager: run mokapot under `sched`."""

    def __init__(self, sched):
        self.sched = sched

    def __enter__(self):
        self.saved = install(self.sched)
        return self.sched

    def __exit__(self, *exc):
        uninstall(self.saved)
        return False
