"""Self-tests of the machinery itself (not property checks):

  selftest-determinism  same scenario -> same event digest, across pool slots, pool sizes and
                        a fresh interpreter under another PYTHONHASHSEED
  selftest-fidelity     SimParallel vs real joblib threads: equal results
  selftest-mutants      sensitivity: text mutants of mokapot in a scratch copy must be caught
                        by the quick check of their property
"""

from __future__ import annotations

import importlib
import json
import os
import shutil
import subprocess
import sys
import tempfile
import time

from . import driver, pool
from .util import digest

VERIF_DIR = driver.VERIF_DIR
DET_PROPS = ["C02", "C03", "C05", "C07", "C09", "C10", "C11", "C13", "C14", "C16"]


def event_digest(o):
    if not o.get("ok"):
        return "HARNESS:" + str(o.get("error") or o.get("timeout") or o.get("died"))
    r = o["result"]
    s = r.get("sched") or {}
    return digest({
        "status": r.get("status"), "clause": r.get("clause"), "digest": r.get("digest"), "probes": r.get("probes"),
        "faults": r.get("faults"), "steps": s.get("steps"), "switches": s.get("switches"), "tasks": s.get("tasks"),
        "sched_digests": r.get("sched_digests"), "debris": r.get("debris_states"), "distinct": r.get("distinct_digests"),
        "evaluations": r.get("evaluations"), "schedule": r.get("schedule"),
    })


def _scenarios(prop, n, seed):
    from .cli import CHECKS

    mod = importlib.import_module(CHECKS[prop])
    out = []
    for i, scn in enumerate(mod.scenarios("quick", seed)):
        if i >= n:
            break
        if prop in ("C13", "C14"):
            scn["max_examples"] = 12
        out.append(scn)
    return mod, out


LAST = {}


def _digests(prop, n, seed, n_procs):
    mod, scns = _scenarios(prop, n, seed)
    res = {}
    raw = {}

    def on_result(k, o):
        res[k] = event_digest(o)
        raw[k] = o

    pool.run_forked(driver._scenario_runner(mod), list(enumerate(scns)), n_procs=n_procs, timeout=300, on_result=on_result)
    LAST[(prop, n_procs)] = raw
    return [res.get(i) for i in range(len(scns))]


def _explain(prop, i, p1, p2):
    a = (LAST[(prop, p1)][i].get("result") or {})
    b = (LAST[(prop, p2)][i].get("result") or {})
    for k in sorted(set(a) | set(b)):
        if k != "wall_s" and a.get(k) != b.get(k):
            print(f"    scenario {i} field {k}: {str(a.get(k))[:200]} ||| {str(b.get(k))[:200]}")


def determinism_child(args):
    pool.warm_up()
    out = {}
    for prop in args.rest[0].split(","):
        out[prop] = _digests(prop, args.n or 20, args.seed, 8)
    print("VSIM-DET " + json.dumps(out))
    return 0


def determinism(args):
    pool.warm_up()
    n = args.n or 24
    props = args.rest[0].split(",") if args.rest else DET_PROPS
    t0 = time.time()
    bad = 0
    total = 0
    first = {}
    for prop in props:
        a = _digests(prop, n, args.seed, 16)
        b = _digests(prop, n, args.seed, 5)
        first[prop] = a
        mism = [i for i, (x, y) in enumerate(zip(a, b)) if x != y]
        harness = [i for i, x in enumerate(a) if str(x).startswith("HARNESS")]
        total += len(a)
        bad += len(mism) + len(harness)
        for i in mism[:3]:
            _explain(prop, i, 16, 5)
        print(f"[determinism] {prop}: {len(a)} scenarios x 2 executions (pool 16 / pool 5): mismatches={mism} harness={harness}",
              flush=True)
    # fresh interpreter, other hash seed
    env = dict(os.environ)
    env["PYTHONHASHSEED"] = "12345"
    cp = subprocess.run([sys.executable, os.path.join(VERIF_DIR, "check"), "selftest-detchild", ",".join(props), "--n", str(n),
                         "--seed", str(args.seed)], capture_output=True, text=True, env=env, timeout=3000)
    line = [ln for ln in cp.stdout.splitlines() if ln.startswith("VSIM-DET ")]
    if not line:
        print("[determinism] fresh interpreter failed:", cp.stdout[-1000:], cp.stderr[-2000:])
        return 3
    other = json.loads(line[-1][len("VSIM-DET "):])
    for prop in props:
        mism = [i for i, (x, y) in enumerate(zip(first[prop], other[prop])) if x != y]
        bad += len(mism)
        print(f"[determinism] {prop}: fresh interpreter PYTHONHASHSEED=12345 vs 0: mismatches={mism}", flush=True)
    print(f"[determinism] {total} scenarios, 3 executions each, divergences={bad}, wall={time.time() - t0:.0f}s")
    return 0 if bad == 0 else 1


# ------------------------------------------------------------------ fidelity
def _fidelity_run(scn, workdir):
    import numpy as np

    from .checks import c05
    from .worlds import pipeline as P

    tables = P.build_tables(scn["data"])
    cfg = dict(scn["cfg"])
    cfg["max_workers"] = 3
    kn = scn["pert"].get("knobs")
    a = P.run_pipeline(tables, cfg, workdir, "sim", fmt=scn["pert"]["format"], row_group=scn["pert"].get("row_group"),
                       sched_desc=scn["pert"]["sched"], knobs=kn)
    b = P.run_pipeline(tables, cfg, workdir, "real", fmt=scn["pert"]["format"], row_group=scn["pert"].get("row_group"),
                       sched_desc={"mode": "real"}, knobs=kn)
    if (a.exc is None) != (b.exc is None):
        return {"equal": False, "why": f"error parity: sim={a.error} real={b.error}"}
    if a.exc is not None:
        return {"equal": type(a.exc) is type(b.exc), "why": f"both raise {a.error} / {b.error}", "both_raise": True}
    for x, y in zip(a.scores, b.scores):
        if not np.array_equal(x, y):
            return {"equal": False, "why": "scores differ"}
    bad = c05.compare_files(a.files, b.files)
    if bad:
        return {"equal": False, "why": str(bad)}
    return {"equal": True, "tasks": a.sched.stats()["tasks"], "switches": a.sched.stats()["switches"]}


def fidelity(args):
    from .checks import c05

    pool.warm_up()
    n = args.n or 40
    scns = []
    for i, scn in enumerate(c05.scenarios("quick", args.seed + 4242)):
        if i >= n:
            break
        scn["cfg"]["learner"] = "olda"
        scns.append(scn)
    res = {}
    # real joblib threads inside the children: fine, the children never fork again
    pool.run_forked(_fidelity_run, list(enumerate(scns)), n_procs=8, timeout=300,
                    on_result=lambda k, o: res.__setitem__(k, o))
    bad = 0
    informative = 0
    for k in sorted(res):
        o = res[k]
        if not o.get("ok"):
            print(f"[fidelity] scenario {k}: harness failure {o}")
            bad += 1
        elif not o["result"]["equal"]:
            print(f"[fidelity] scenario {k}: SimParallel and joblib disagree: {o['result']['why']}")
            bad += 1
        elif not o["result"].get("both_raise"):
            informative += 1
    print(f"[fidelity] {len(res)} scenarios under SimParallel and under real joblib threads (3 workers): "
          f"{informative} compared result-for-result, disagreements={bad}")
    return 0 if bad == 0 else 1


# ------------------------------------------------------------------- mutants
def load_mutants():
    with open(os.path.join(VERIF_DIR, "mutants", "mutants.json")) as fh:
        return json.load(fh)


def make_mutant_copy(mut, repo="/repo"):
    root = tempfile.mkdtemp(prefix="vsim-mut-", dir=os.environ.get("TMPDIR") or pool.scratch_root())
    shutil.copytree(os.path.join(repo, "mokapot"), os.path.join(root, "mokapot"),
                    ignore=shutil.ignore_patterns("__pycache__"))
    for ed in mut["edits"]:
        p = os.path.join(root, ed["file"])
        with open(p) as fh:
            s = fh.read()
        if s.count(ed["old"]) != 1:
            shutil.rmtree(root, ignore_errors=True)
            raise RuntimeError(f"mutant {mut['id']}: pattern occurs {s.count(ed['old'])} times in {ed['file']}")
        with open(p, "w") as fh:
            fh.write(s.replace(ed["old"], ed["new"]))
    return root


def mutants(args):
    muts = load_mutants()
    only = set(args.rest[0].split(",")) if args.rest else None
    results = []
    t0 = time.time()
    for mut in muts:
        if only and mut["id"] not in only and mut["property"] not in only:
            continue
        try:
            root = make_mutant_copy(mut)
        except RuntimeError as exc:
            print(f"[mutants] {mut['id']}: NOT APPLICABLE ({exc})")
            results.append((mut["id"], "stale"))
            continue
        scratch = tempfile.mkdtemp(prefix="vsim-mutout-", dir=pool.scratch_root())
        env = dict(os.environ)
        env.pop("VSIM_REEXEC", None)
        env.update(VERIF_REPO=root, VERIF_EVIDENCE_DIR=os.path.join(scratch, "evidence"),
                   VERIF_REPLAY_DIR=os.path.join(scratch, "replays"), VERIF_MINIMISE_S="15")
        cmd = [os.path.join(VERIF_DIR, "check"), mut["property"], "--tier", "quick"]
        if mut.get("n"):
            cmd += ["--n", str(mut["n"])]
        t1 = time.time()
        try:
            cp = subprocess.run(cmd, capture_output=True, text=True, env=env, timeout=1500)
            rc, outp = cp.returncode, cp.stdout
        except subprocess.TimeoutExpired:
            rc, outp = 124, ""
        viol = [ln for ln in outp.splitlines() if ln.startswith("VIOLATION ")]
        clause = [ln for ln in outp.splitlines() if ln.startswith("clause: ")]
        caught = rc == 1 and bool(viol)
        results.append((mut["id"], "caught" if caught else f"MISSED(rc={rc})"))
        print(f"[mutants] {mut['id']} ({mut['property']}): {'caught' if caught else 'MISSED rc=' + str(rc)} "
              f"{clause[:2]} in {time.time() - t1:.0f}s - {mut['what']}", flush=True)
        if not caught and os.environ.get("VERIF_DEBUG"):
            print(outp[-1500:])
        shutil.rmtree(root, ignore_errors=True)
        shutil.rmtree(scratch, ignore_errors=True)
    missed = [r for r in results if r[1] != "caught"]
    print(f"[mutants] {len(results)} mutants, {len(results) - len(missed)} caught, not caught: {missed}, "
          f"wall={time.time() - t0:.0f}s")
    return 0 if not missed else 1


def main(args):
    if args.target == "selftest-determinism":
        return determinism(args)
    if args.target == "selftest-detchild":
        return determinism_child(args)
    if args.target == "selftest-fidelity":
        return fidelity(args)
    if args.target == "selftest-mutants":
        return mutants(args)
    print("unknown selftest", args.target)
    return 2
