#!/bin/sh
# False-alarm hunt: every quick check under several VERIF_SEED values on the unchanged tree.
# usage: tools/seedsweep.sh <first seed> <last seed> [checks...]   (evidence/replays go to a scratch dir)
cd "$(dirname "$0")/.."
A=${1:-1}; B=${2:-4}; shift 2 2>/dev/null
CHECKS=${*:-"C02 C03 C05 C07 C08 C09 C10 C11 C13 C14 C16"}
OUT=$(mktemp -d /dev/shm/vsim-sweep-XXXXXX)
export VERIF_EVIDENCE_DIR=$OUT/evidence VERIF_REPLAY_DIR=$OUT/replays
bad=0
for s in $(seq $A $B); do
  for c in $CHECKS; do
    VERIF_SEED=$s timeout 1500 ./check $c --tier quick > $OUT/$c.$s.log 2>&1
    rc=$?
    line=$(grep -E "^\[$c\] evaluations" $OUT/$c.$s.log | tail -1)
    echo "seed=$s $c rc=$rc $line"
    if [ $rc -ne 0 ]; then
      bad=$((bad+1))
      grep -E "^clause|^message|^signature|VIOLATION|HARNESS" $OUT/$c.$s.log | cut -c1-500
      mkdir -p sweep_failures && cp $OUT/$c.$s.log sweep_failures/ 2>/dev/null
      cp -r $OUT/replays sweep_failures/ 2>/dev/null
    fi
  done
done
echo "sweep done: non-zero exits=$bad"
rm -rf $OUT
[ $bad -eq 0 ]
