"""World C: tabular readers / writers / mergers driven by operation histories.

Operations are plain JSON-able [name, args] pairs executed by TabWorld.apply();
the Hypothesis state machine (checks/c13.py, c14.py) only *draws* them, so a
recorded op list is a replay file that needs no Hypothesis to run.  Every
table has a reference model: a list of typed rows + a column list."""

from __future__ import annotations

import math
import os
from pathlib import Path

import numpy as np
import pandas as pd


class OracleViolation(Exception):
    def __init__(self, clause, message, **sig):
        super().__init__(f"{clause}: {message}")
        self.clause = clause
        self.message = message
        self.signature = sig


TYPES = ("int", "float", "str", "bool")


def _norm(v):
    if isinstance(v, (np.bool_, bool)):
        return bool(v)
    if isinstance(v, (np.integer,)):
        return int(v)
    if isinstance(v, (np.floating,)):
        return float(v)
    if isinstance(v, (np.str_, str)):
        return str(v)
    return v


def frame_rows(df, columns=None):
    cols = list(df.columns) if columns is None else columns
    arrs = [df[c].tolist() for c in cols]
    return [[_norm(a[i]) for a in arrs] for i in range(len(df))]


def rows_equal(a, b):
    if len(a) != len(b):
        return False
    for ra, rb in zip(a, b):
        if len(ra) != len(rb):
            return False
        for x, y in zip(ra, rb):
            if isinstance(x, bool) or isinstance(y, bool):
                if bool(x) != bool(y) or isinstance(x, str) or isinstance(y, str):
                    return False
            elif isinstance(x, (int, float)) and isinstance(y, (int, float)):
                if float(x) != float(y) and not (math.isnan(float(x)) and math.isnan(float(y))):
                    return False
            elif x != y:
                return False
    return True


def first_diff(a, b):
    for i, (ra, rb) in enumerate(zip(a, b)):
        if not rows_equal([ra], [rb]):
            return f"row {i}: {rb!r} != expected {ra!r}"
    return f"{len(b)} rows, expected {len(a)}"


class TabWorld:
    def __init__(self, workdir):
        self.dir = Path(workdir)
        os.makedirs(self.dir, exist_ok=True)
        self.tables = {}
        self.frame_readers = {}  # table -> DataFrameReader that lives as long as the world (in-memory tables persist)
        self.counter = 0
        self.stats = {"ops": 0, "reads": 0, "chunked_reads": 0, "appends": 0, "finalized": 0, "merges": 0,
                      "sortedness_faults": 0, "multi_chunk_reads": 0, "buffer_flushes": 0, "tie_merges": 0, "abandoned_merges": 0}
        self.kinds = set()

    # ------------------------------------------------------------ helpers
    def _pa_types(self, types):
        import pyarrow as pa

        m = {"int": pa.int64(), "float": pa.float64(), "str": pa.string(), "bool": pa.bool_()}
        return [m[t] for t in types]

    def _np_dtype(self, columns, types):
        m = {"int": "i8", "float": "f8", "str": "U16", "bool": "?"}
        return np.dtype([(c, m[t]) for c, t in zip(columns, types)])

    def _df(self, columns, types, rows):
        data = {}
        for j, (c, t) in enumerate(zip(columns, types)):
            vals = [r[j] for r in rows]
            if t == "int":
                data[c] = pd.array(vals, dtype="int64") if vals else pd.Series([], dtype="int64")
            elif t == "float":
                data[c] = pd.Series(vals, dtype="float64")
            elif t == "bool":
                data[c] = pd.Series(vals, dtype="bool")
            else:
                data[c] = pd.Series(vals, dtype="object")
        return pd.DataFrame(data, columns=columns)

    def _path(self, name, fmt):
        return self.dir / f"{name}.{'parquet' if fmt == 'parquet' else 'csv'}"

    # ---------------------------------------------------------- dispatcher
    def apply(self, op):
        name, args = op
        self.stats["ops"] += 1
        fn = getattr(self, "op_" + name)
        return fn(**args)

    # -------------------------------------------------------------- writers
    def op_open_writer(self, table, fmt, columns, types, buffer_size, kind):
        from mokapot.tabular_data import TableType, TabularDataWriter

        if table in self.tables:
            return
        path = self._path(table, fmt)
        kw = {}
        if fmt == "parquet":
            kw["column_types"] = self._pa_types(types)
        if buffer_size <= 1:
            kind = "DataFrame"
        w = TabularDataWriter.from_suffix(path, columns=list(columns), buffer_size=buffer_size,
                                          buffer_type=TableType[kind], **kw)
        w.initialize()
        self.tables[table] = {"path": path, "fmt": fmt, "columns": list(columns), "types": list(types), "rows": [],
                              "writer": w, "kind": kind, "buffer_size": buffer_size, "final": False, "sorted": None}
        self.kinds.add(("writer", fmt, kind, min(buffer_size, 2)))

    def op_append(self, table, rows, reuse=False):
        t = self.tables.get(table)
        if t is None or t["final"] or t["writer"] is None:
            return
        cols, types = t["columns"], t["types"]
        rows = [list(r) for r in rows if len(r) == len(cols)]
        if not rows:
            return
        w = t["writer"]
        before = len(t["rows"])
        if t["kind"] == "DataFrame":
            df = self._df(cols, types, rows)
            w.append_data(df)
            if reuse:
                # the caller recycles its batch frame: overwrite it in place after handing it over
                for c, ty in zip(cols, types):
                    df[c] = {"int": -999, "float": -999.5, "str": "sRECYCLED", "bool": False}[ty]
                self.stats["caller_reused_its_object"] = self.stats.get("caller_reused_its_object", 0) + 1
        elif t["kind"] == "Dicts":
            dicts = [dict(zip(cols, r)) for r in rows]
            arg = dicts[0] if len(dicts) == 1 else dicts
            w.append_data(arg)
            if reuse and isinstance(arg, list):
                # the caller recycles its LIST (the row dicts themselves are not touched: the writer may keep references
                # to them, the statement says nothing about rows mutated after they were appended)
                arg.clear()
                self.stats["caller_reused_its_object"] = self.stats.get("caller_reused_its_object", 0) + 1
        else:
            dt = self._np_dtype(cols, types)
            if reuse:
                # records typed by their own batch, as a reader that types every chunk on its own delivers them: strings
                # as wide as the longest of the batch, a float column holding whole numbers only as integers
                spec = []
                for j, (c, ty) in enumerate(zip(cols, types)):
                    vals = [r[j] for r in rows]
                    if ty == "str":
                        spec.append((c, f"U{max(1, max(len(v) for v in vals))}"))
                    elif ty == "float" and all(float(v).is_integer() for v in vals):
                        spec.append((c, "i8"))
                    else:
                        spec.append((c, dt[c]))
                dt = np.dtype(spec)
                self.stats["records_typed_per_batch"] = self.stats.get("records_typed_per_batch", 0) + 1
            arr = np.array([tuple(r) for r in rows], dtype=dt).view(np.recarray)
            for i in range(len(arr)):
                w.append_data(arr[i])
        t["rows"].extend(rows)
        self.stats["appends"] += 1
        if t["buffer_size"] > 1 and before // t["buffer_size"] != len(t["rows"]) // t["buffer_size"]:
            self.stats["buffer_flushes"] += 1

    def op_finalize(self, table):
        t = self.tables.get(table)
        if t is None or t["final"] or t["writer"] is None:
            return
        t["writer"].finalize()
        t["final"] = True
        self.stats["finalized"] += 1
        reader = t["writer"].get_associated_reader()
        got = frame_rows(reader.read())
        if not rows_equal(t["rows"], got):
            raise OracleViolation("writer_roundtrip", f"{t['fmt']} writer (buffer {t['buffer_size']}, {t['kind']}): reading "
                                  f"back the finalised file: {first_diff(t['rows'], got)}",
                                  fmt=t["fmt"], kind=t["kind"], buffered=t["buffer_size"] > 1)
        t["writer"] = None

    def op_write_whole(self, table, fmt, columns, types, rows):
        from mokapot.tabular_data import TabularDataWriter

        if table in self.tables:
            return
        path = self._path(table, fmt)
        kw = {}
        if fmt == "parquet":
            kw["column_types"] = self._pa_types(types)
        w = TabularDataWriter.from_suffix(path, columns=list(columns), **kw)
        w.write(self._df(columns, types, rows))
        self.tables[table] = {"path": path, "fmt": fmt, "columns": list(columns), "types": list(types),
                              "rows": [list(r) for r in rows], "writer": None, "kind": "write", "buffer_size": 0,
                              "final": True, "sorted": None}
        got = frame_rows(w.get_associated_reader().read())
        if not rows_equal(self.tables[table]["rows"], got):
            raise OracleViolation("writer_roundtrip", f"{fmt} write(): {first_diff(self.tables[table]['rows'], got)}",
                                  fmt=fmt, kind="write", buffered=False)
        self.kinds.add(("write", fmt))

    def op_copy_text_table(self, table, dest, rows, buffer_size, kind, chunk_size):
        """A text table written by another tool in %g style (whole numbers without a decimal point; the first two
        rows of the float column are whole, later ones fractional) is copied through reader -> writer, the writer being
        declared with the reader's column names and (two-row inferred) column types - the usual "copy a table" idiom,
        also used by the rollup tool.  The copy must hold the same values."""
        from mokapot.tabular_data import TableType, TabularDataReader, TabularDataWriter

        if table in self.tables or dest in self.tables or table == dest or len(rows) < 3:
            return
        columns, types = ["score", "rid"], ["float", "int"]
        rws = [[float(r[0]), int(r[1])] for r in rows]
        rws[0][0], rws[1][0] = float(round(rws[0][0])), float(round(rws[1][0]))
        src = self._path(table, "csv")
        self._write_int_text(src, columns, rws)
        self.tables[table] = {"path": src, "fmt": "csv", "columns": columns, "types": types, "rows": rws, "writer": None,
                              "kind": "direct", "buffer_size": 0, "final": True, "sorted": None}
        reader = TabularDataReader.from_path(src)
        dst = self._path(dest, "csv")
        kind = "DataFrame"  # (chunks of a reader are frames; the other buffer kinds expect dicts / records)
        w = TabularDataWriter.from_suffix(dst, columns=reader.get_column_names(), column_types=reader.get_column_types(),
                                          buffer_size=buffer_size, buffer_type=TableType[kind])
        w.initialize()
        for ch in reader.get_chunked_data_iterator(chunk_size=chunk_size):
            w.append_data(ch)
        w.finalize()
        self.stats["text_tables_copied"] = self.stats.get("text_tables_copied", 0) + 1
        self.tables[dest] = {"path": dst, "fmt": "csv", "columns": columns, "types": types, "rows": [list(r) for r in rws],
                             "writer": None, "kind": "write", "buffer_size": buffer_size, "final": True, "sorted": None}
        got = frame_rows(TabularDataReader.from_path(dst).read(), columns)
        if not rows_equal(rws, got):
            raise OracleViolation("writer_roundtrip", f"copy of a %g-style text table (writer declared with the reader's column "
                                  f"types {[str(t) for t in reader.get_column_types()]}, buffer {buffer_size} {kind}): "
                                  f"{first_diff(rws, got)}", fmt="csv", kind="copy", buffered=buffer_size > 1)

    def op_parquet_direct(self, table, columns, types, rows, row_group_size, dict_strings=False, index_start=0):
        import pyarrow as pa
        import pyarrow.parquet as pq

        if table in self.tables:
            return
        path = self._path(table, "parquet")
        df = self._df(columns, types, rows)
        tbl = pa.Table.from_pandas(df, preserve_index=False, schema=pa.schema(list(zip(columns, self._pa_types(types)))))
        if dict_strings:
            # string columns stored dictionary-typed (what pandas writes for a Categorical column)
            for i, t in enumerate(types):
                if t == "str":
                    tbl = tbl.set_column(i, columns[i], tbl.column(i).dictionary_encode())
                    self.stats["dictionary_typed_parquet"] = 1
        if index_start:
            from ..datagen import with_range_index_metadata

            tbl = with_range_index_metadata(tbl, index_start)  # written by pandas from a sliced frame
            self.stats["parquet_from_sliced_frame"] = 1
        pq.write_table(tbl, path, row_group_size=max(1, int(row_group_size)))
        self.tables[table] = {"path": path, "fmt": "parquet", "columns": list(columns), "types": list(types),
                              "rows": [list(r) for r in rows], "writer": None, "kind": "direct", "buffer_size": 0,
                              "final": True, "sorted": None, "row_group": row_group_size}
        self.kinds.add(("rowgroups", min(3, len(rows) // max(1, row_group_size))))

    # -------------------------------------------------------------- readers
    def _reader(self, table, via, other=None, rename=None):
        from mokapot.streaming import ComputedTabularDataReader, JoinedTabularDataReader
        from mokapot.tabular_data import ColumnMappedReader, DataFrameReader, TabularDataReader

        t = self.tables[table]
        cols, types, rows = list(t["columns"]), list(t["types"]), t["rows"]
        if via in ("frame", "mapped_frame"):
            fr = self.frame_readers.get(table)
            if fr is None:
                fr = self.frame_readers[table] = DataFrameReader(self._df(cols, types, rows))
            if via == "frame":
                return fr, cols, rows
            # a renamed view of the in-memory table; the map may swap two names (new names that are also old names)
            k = (rename or 0) % max(1, len(cols))
            if len(cols) >= 2 and (rename or 0) % 2 == 1:
                a, b = cols[k], cols[(k + 1) % len(cols)]
                cmap = {a: b, b: a}
            else:
                cmap = {cols[k]: f"{cols[k]}_m"}
            return ColumnMappedReader(fr, cmap), [cmap.get(c, c) for c in cols], rows
        base = TabularDataReader.from_path(t["path"])
        if via == "direct":
            return base, cols, rows
        if via == "mapped":
            cmap = {c: f"{c}_r" for i, c in enumerate(cols) if (rename or 1) >> i & 1}
            return ColumnMappedReader(base, cmap), [cmap.get(c, c) for c in cols], rows
        if via == "joined":
            o = self.tables.get(other)
            if o is None or not o["final"] or len(o["rows"]) != len(rows) or other == table:
                return None
            cmap = {c: f"{c}_j" for c in o["columns"]}
            r2 = ColumnMappedReader(TabularDataReader.from_path(o["path"]), cmap)
            jcols = cols + [cmap[c] for c in o["columns"]]
            jrows = [a + b for a, b in zip(rows, o["rows"])]
            return JoinedTabularDataReader([base, r2]), jcols, jrows
        if via == "computed":
            # the computed column must not depend on columns the caller did not request (the reader hands
            # the function only the requested ones): derive it from the row index, which also makes the
            # computed values sensitive to a chunk index that does not continue
            func = lambda df: np.asarray(df.index.values, dtype="int64") * 2 + 1  # noqa: E731
            comp = [2 * i + 1 for i in range(len(rows))]
            return (ComputedTabularDataReader(base, "computed", np.dtype("int64"), func), cols + ["computed"],
                    [r + [c] for r, c in zip(rows, comp)])
        raise ValueError(via)

    def op_read(self, table, via, chunk_size, col_pick, other=None, rename=None, twin_chunk=None):
        """Whole read and chunked read through reader kind `via`; col_pick selects/permutes columns (None = all)."""
        t = self.tables.get(table)
        if t is None or not t["final"]:
            return
        made = self._reader(table, via, other, rename)
        if made is None:
            return
        reader, cols, rows = made
        if col_pick is None and via != "computed":
            want_cols = None
            exp_cols = cols
        else:
            pick = col_pick if col_pick is not None else list(range(len(cols)))
            idx = []
            for p in pick:
                p = p % len(cols)
                if p not in idx:
                    idx.append(p)
            if via == "computed" and rename and (len(cols) - 1) not in idx:
                idx.append(len(cols) - 1)
            want_cols = [cols[i] for i in idx]
            exp_cols = want_cols
        ci = [cols.index(c) for c in exp_cols]
        exp_rows = [[r[i] for i in ci] for r in rows]
        sig = {"via": via, "fmt": t["fmt"]}
        self.kinds.add(("read", via, t["fmt"], want_cols is None))
        whole = reader.read(columns=want_cols)
        self.stats["reads"] += 1
        if list(whole.columns) != exp_cols:
            raise OracleViolation("read_columns", f"{via} reader on {t['fmt']}: read(columns={want_cols}) returned columns "
                                  f"{list(whole.columns)}, expected {exp_cols}", **sig)
        got_whole = frame_rows(whole, exp_cols)
        if not rows_equal(exp_rows, got_whole):
            raise OracleViolation("read_whole", f"{via} reader on {t['fmt']}: whole read differs from the table: "
                                  f"{first_diff(exp_rows, got_whole)}", **sig)
        if twin_chunk:
            # two chunk iterators of the SAME reader object alive at once, advanced alternately (what worker threads
            # sharing one reader do); each must deliver what it delivers alone
            it_a = reader.get_chunked_data_iterator(chunk_size=chunk_size, columns=want_cols)
            it_b = reader.get_chunked_data_iterator(chunk_size=twin_chunk, columns=want_cols)
            chunks, twin = [], []
            live = [(it_a, chunks), (it_b, twin)]
            while live:
                for pair in list(live):
                    try:
                        pair[1].append(next(pair[0]))
                    except StopIteration:
                        live.remove(pair)
            self.stats["interleaved_iterators"] = self.stats.get("interleaved_iterators", 0) + 1
            off = 0
            for k, ch in enumerate(twin):
                if list(ch.index) != list(range(off, off + len(ch))):
                    raise OracleViolation("chunk_index", f"{via} reader on {t['fmt']}: second iterator (chunk size {twin_chunk}) "
                                          f"advanced alternately with a first one (chunk size {chunk_size}): index of its chunk {k} "
                                          f"is {list(ch.index)[:4]}..., expected to continue at {off}", interleaved=True, **sig)
                off += len(ch)
            got_twin = [r for ch in twin for r in frame_rows(ch, exp_cols)]
            if not rows_equal(exp_rows, got_twin):
                raise OracleViolation("read_chunked", f"{via} reader on {t['fmt']}: second of two alternately advanced iterators "
                                      f"delivers other rows: {first_diff(exp_rows, got_twin)}", interleaved=True, **sig)
        else:
            chunks = list(reader.get_chunked_data_iterator(chunk_size=chunk_size, columns=want_cols))
        self.stats["chunked_reads"] += 1
        if len(chunks) > 1:
            self.stats["multi_chunk_reads"] += 1
        got = []
        offset = 0
        for k, ch in enumerate(chunks):
            if list(ch.columns) != exp_cols:
                raise OracleViolation("read_columns", f"{via} reader on {t['fmt']}: chunk {k} has columns {list(ch.columns)}, "
                                      f"expected {exp_cols}", **sig)
            if list(ch.index) != list(range(offset, offset + len(ch))):
                raise OracleViolation("chunk_index", f"{via} reader on {t['fmt']} (chunk size {chunk_size}): index of chunk {k} "
                                      f"is {list(ch.index)[:4]}..., expected to continue at {offset}", **sig)
            offset += len(ch)
            got.extend(frame_rows(ch, exp_cols))
        if chunks and list(whole.index) != [i for ch in chunks for i in ch.index]:
            raise OracleViolation("chunk_index", f"{via} reader on {t['fmt']} (chunk size {chunk_size}): the row index of the "
                                  f"whole read starts {list(whole.index)[:3]}, the chunks' indices start "
                                  f"{[i for ch in chunks for i in ch.index][:3]}", whole=True, **sig)
        if not rows_equal(exp_rows, got):
            raise OracleViolation("read_chunked", f"{via} reader on {t['fmt']} (chunk size {chunk_size}, "
                                  f"{len(chunks)} chunks): concatenated chunks differ from the table: "
                                  f"{first_diff(exp_rows, got)}", **sig)

    # --------------------------------------------------------------- merging
    def op_make_runs(self, group, fmt, runs, descending, extra_types, row_group=None, int_text=False):
        """runs: list of lists of [score(float), id(int)] rows; each run is sorted here and stored as one file."""
        if any(k.startswith(group + "_") for k in self.tables):
            return
        columns = ["score", "rid"] + [f"x{i}" for i in range(len(extra_types))]
        types = ["float", "int"] + list(extra_types)
        for i, run in enumerate(runs):
            rows = []
            for r in run:
                row = [float(r[0]), int(r[1])]
                for j, ty in enumerate(extra_types):
                    row.append({"int": int(r[1]) * 3 + j, "float": float(f"{float(r[0]) / 2 + j:.6f}"), "str": f"s{r[1]}_{j}",
                                "bool": bool(int(r[1]) % 2)}[ty])
                rows.append(row)
            rows.sort(key=lambda x: -x[0] if descending else x[0])
            name = f"{group}_{i}"
            path = self._path(name, fmt)
            df = self._df(columns, types, rows)
            if fmt == "parquet":
                if row_group:
                    import pyarrow as pa
                    import pyarrow.parquet as pq

                    pq.write_table(pa.Table.from_pandas(df, preserve_index=False), path, row_group_size=int(row_group))
                    self.kinds.add(("run_rowgroups", min(3, len(rows) // int(row_group))))
                else:
                    df.to_parquet(path, index=False)
            elif int_text:
                self._write_int_text(path, columns, rows)
                self.kinds.add(("run_int_text",))
            else:
                df.to_csv(path, sep="\t", index=False)
            self.tables[name] = {"path": path, "fmt": fmt, "columns": columns, "types": types, "rows": rows,
                                 "writer": None, "kind": "run", "buffer_size": 0, "final": True,
                                 "sorted": "desc" if descending else "asc", "int_text": bool(int_text and fmt != "parquet")}

    @staticmethod
    def _write_int_text(path, columns, rows):
        """A file written by another tool: whole-number scores carry no decimal point, so a text reader types the
        score column per chunk (int64 for a chunk of whole numbers, float64 otherwise)."""
        with open(path, "w") as fh:
            fh.write("\t".join(columns) + "\n")
            for r in rows:
                whole = float(r[0]) == int(r[0]) and not (r[0] == 0 and math.copysign(1.0, r[0]) < 0)
                cells = [str(int(r[0])) if whole else repr(float(r[0]))]
                cells += ["True" if v is True else "False" if v is False else (repr(v) if isinstance(v, float) else str(v))
                          for v in r[1:]]
                fh.write("\t".join(cells) + "\n")

    @staticmethod
    def _same_types(readers):
        """The table merger requires equal column types of its inputs (sniffed from the first rows of a text file);
        inputs that do not meet that precondition are outside the merge statement."""
        ts = [[str(t) for t in r.get_column_types()] for r in readers]
        return all(t == ts[0] for t in ts)

    def _runs(self, group):
        names = sorted((k for k in self.tables if k.startswith(group + "_") and self.tables[k]["kind"] == "run"),
                       key=lambda k: int(k.rsplit("_", 1)[1]))
        return [self.tables[n] for n in names]

    def _check_merge(self, runs, got, descending, what, sig, cols=None):
        exp = [r for t in runs for r in t["rows"]]
        sp = 0
        if cols is not None:
            pidx = [runs[0]["columns"].index(c) for c in cols]
            exp = [[r[i] for i in pidx] for r in exp]
            sp = cols.index(runs[0]["columns"][0])
        def key(r):  # numbers compare by value (a chunk of whole numbers may come back as ints)
            return tuple(repr(x) if isinstance(x, (bool, str)) else repr(float(x)) if isinstance(x, (int, float)) else repr(x)
                         for x in r)

        if sorted(map(key, exp)) != sorted(map(key, [[_norm(v) for v in r] for r in got])):
            miss = len(exp) - len(got)
            raise OracleViolation("merge_multiset", f"{what}: output is not the union of the inputs ({len(got)} rows out, "
                                  f"{len(exp)} in; {'rows lost' if miss > 0 else 'rows duplicated or altered'})",
                                  lost=miss > 0, **sig)
        sc = [float(r[sp]) for r in got]
        for i in range(1, len(sc)):
            if (sc[i] > sc[i - 1]) if descending else (sc[i] < sc[i - 1]):
                raise OracleViolation("merge_order", f"{what}: score order broken at output row {i} ({sc[i - 1]} -> {sc[i]})", **sig)

    def _check_merge_prefix(self, runs, got, descending, what, sig, cols=None):
        """A merge abandoned after len(got) rows: they must be the best len(got) scores, in order, each an input row."""
        def key(r):
            return tuple((float(x) if isinstance(x, (int, float)) and not isinstance(x, bool) else x) for x in r)

        pidx = list(range(len(runs[0]["columns"]))) if cols is None else [runs[0]["columns"].index(c) for c in cols]
        sp = 0 if cols is None else cols.index(runs[0]["columns"][0])
        pool = {}
        for t in runs:
            for r in t["rows"]:
                r = [r[i] for i in pidx]
                pool[key(r)] = pool.get(key(r), 0) + 1
        for r in got:
            if pool.get(key(r), 0) <= 0:
                raise OracleViolation("merge_multiset", f"{what}: row {r} is not an input row (or was delivered twice)", **sig)
            pool[key(r)] -= 1
        want = sorted((float(r[0]) for t in runs for r in t["rows"]), reverse=descending)[: len(got)]
        have = [float(r[sp]) for r in got]
        if have != want:
            raise OracleViolation("merge_order", f"{what}: the first {len(got)} rows carry scores {have[:6]}, the best "
                                  f"{len(got)} of the inputs are {want[:6]}", **sig)

    def op_merge_sort(self, group, merge_chunk, take=None):
        """utils.merge_sort (row-dict merge, descending only).  take=k: the consumer abandons the merge after k rows
        (an exception in its loop, a `break`); later merges in the same process must not notice."""
        from mokapot import utils

        from .. import knobs

        runs = [t for t in self._runs(group)]
        if not runs or runs[0]["sorted"] != "desc" or any(not t["rows"] for t in runs):
            return
        knobs.set_knobs({"MERGE_SORT_CHUNK_SIZE": merge_chunk})
        try:
            it = utils.merge_sort([t["path"] for t in runs], score_column="score")
            if take is None:
                out = list(it)
            else:
                import itertools

                out = list(itertools.islice(it, take))
                del it  # abandoned: never resumed, never closed explicitly
        finally:
            knobs.reset_knobs()
        cols = runs[0]["columns"]
        got = [[_norm(r[c]) for c in cols] for r in out]
        if take is not None:
            self.stats["abandoned_merges"] = self.stats.get("abandoned_merges", 0) + 1
            self._check_merge_prefix(runs, got, True, f"merge_sort of {len(runs)} {runs[0]['fmt']} runs abandoned after {take} rows",
                                     {"impl": "merge_sort", "fmt": runs[0]["fmt"], "abandoned": True})
            return got
        self.stats["merges"] += 1
        all_sc = [r[0] for t in runs for r in t["rows"]]
        if len(set(all_sc)) < len(all_sc):
            self.stats["tie_merges"] += 1
        self.kinds.add(("merge_sort", runs[0]["fmt"], len(runs) > 1, merge_chunk < 4))
        self._check_merge(runs, got, True, f"merge_sort of {len(runs)} {runs[0]['fmt']} runs (MERGE_SORT_CHUNK_SIZE={merge_chunk})",
                          {"impl": "merge_sort", "fmt": runs[0]["fmt"]})
        return got

    def op_merge_readers(self, group, mode, row_type, reader_chunk, out_chunk, take=None, col_pick=None):
        """MergedTabularDataReader via read / chunked / row iterator / merge_readers."""
        from mokapot.streaming import MergedTabularDataReader, merge_readers
        from mokapot.tabular_data import TableType, TabularDataReader

        runs = self._runs(group)
        if not runs or any(not t["rows"] for t in runs):
            return
        desc = runs[0]["sorted"] == "desc"
        readers = [TabularDataReader.from_path(t["path"]) for t in runs]
        if not self._same_types(readers):
            return
        cols = runs[0]["columns"]
        all_cols = cols
        want_cols = None
        if col_pick and mode != "merge_readers":
            # a projection: requested columns in another order / a subset (the score column always among them)
            idx = []
            for p_ in col_pick:
                p_ = p_ % len(all_cols)
                if p_ not in idx:
                    idx.append(p_)
            if 0 not in idx:
                idx.append(0)
            want_cols = [all_cols[i] for i in idx]
            cols = want_cols
            self.stats["merges_with_projection"] = self.stats.get("merges_with_projection", 0) + 1
            if want_cols.index(all_cols[0]) != 0:
                self.stats["projection_moves_score_column"] = self.stats.get("projection_moves_score_column", 0) + 1
        what = f"MergedTabularDataReader.{mode} over {len(runs)} {runs[0]['fmt']} runs ({'desc' if desc else 'asc'}, reader chunk {reader_chunk}, columns={want_cols})"
        sig = {"impl": "table_merger", "mode": mode, "fmt": runs[0]["fmt"]}
        if want_cols is not None:
            sig["projection"] = True
        if mode == "merge_readers":
            it = merge_readers(readers, "score", descending=desc, reader_chunk_size=reader_chunk)
            got = [frame_rows(ch, cols)[0] for ch in it]
        else:
            m = MergedTabularDataReader(readers, "score", descending=desc, reader_chunk_size=reader_chunk)
            if mode == "read":
                whole = m.read(columns=want_cols)
                if want_cols is not None and list(whole.columns) != want_cols:
                    raise OracleViolation("merge_columns", f"{what}: returned columns {list(whole.columns)}", **sig)
                got = frame_rows(whole, cols)
            elif mode == "chunked":
                got = []
                for k, ch in enumerate(m.get_chunked_data_iterator(chunk_size=out_chunk, columns=want_cols)):
                    if len(ch) > out_chunk:
                        raise OracleViolation("merge_chunk_size", f"{what}: chunk of {len(ch)} rows for chunk_size {out_chunk}", **sig)
                    got.extend(frame_rows(ch, cols))
                    if take is not None and k == 0:
                        # a second iteration over the SAME merged reader object starts (and completes) while the first
                        # one is alive: a merged reader, like any reader, is a description of data, not a cursor
                        second = frame_rows(m.read(columns=want_cols), cols)
                        self.stats["two_live_iterations_of_one_merged_reader"] = self.stats.get("two_live_iterations_of_one_merged_reader", 0) + 1
                        sig2 = dict(sig, second_iteration=True)
                        self._check_merge(runs, second, desc, what + " - a read() started while the chunked iteration was alive", sig2, cols=want_cols)
                take = None
            else:
                rt = TableType[row_type]
                got = []
                row_it = m.get_row_iterator(columns=want_cols, row_type=rt)
                if take is not None:
                    import itertools

                    row_it = itertools.islice(row_it, take)
                for row in row_it:
                    if rt == TableType.DataFrame:
                        got.append(frame_rows(row, cols)[0])
                    elif rt == TableType.Dicts:
                        got.append([_norm(row[c]) for c in cols])
                    else:
                        got.append([_norm(row[c]) for c in cols])
        if take is not None and mode == "rows":
            self.stats["abandoned_merges"] = self.stats.get("abandoned_merges", 0) + 1
            sig["abandoned"] = True
            self._check_merge_prefix(runs, got, desc, what + f" abandoned after {take} rows", sig, cols=want_cols)
            return got
        self.stats["merges"] += 1
        all_sc = [r[0] for t in runs for r in t["rows"]]
        if len(set(all_sc)) < len(all_sc):
            self.stats["tie_merges"] += 1
        self.kinds.add(("table_merger", mode, row_type if mode == "rows" else "", runs[0]["fmt"], desc, reader_chunk < 4))
        self._check_merge(runs, got, desc, what, sig, cols=want_cols)
        return got

    def op_unsorted_fault(self, group, run_index, i, j, reader_chunk, tiny=False):
        """S11: swap two rows with unequal scores inside one stored run; the table merger must reject it."""
        from mokapot.streaming import MergedTabularDataReader
        from mokapot.tabular_data import TabularDataReader

        runs = self._runs(group)
        if not runs or any(not t["rows"] for t in runs):
            return
        t = runs[run_index % len(runs)]
        n = len(t["rows"])
        if n < 2:
            return
        i, j = i % n, j % n
        desc = t["sorted"] == "desc"
        rows = [list(r) for r in t["rows"]]
        if tiny:
            # a violation in the sixth decimal: row i lies on the wrong side of row i-1 by 1e-6
            i = max(1, i)
            rows[i][0] = float(f"{rows[i - 1][0] + (1e-6 if desc else -1e-6):.6f}")
            self.stats["tiny_sortedness_faults"] = self.stats.get("tiny_sortedness_faults", 0) + 1
        else:
            if t["rows"][i][0] == t["rows"][j][0]:
                return
            rows[i], rows[j] = rows[j], rows[i]
        sc = [r[0] for r in rows]
        still_sorted = all((a >= b) if desc else (a <= b) for a, b in zip(sc, sc[1:]))
        if still_sorted:
            return
        path = self.dir / f"{group}_faulty.{'parquet' if t['fmt'] == 'parquet' else 'csv'}"
        df = self._df(t["columns"], t["types"], rows)
        if t["fmt"] == "parquet":
            df.to_parquet(path, index=False)
        elif t.get("int_text"):
            self._write_int_text(path, t["columns"], rows)
        else:
            df.to_csv(path, sep="\t", index=False)
        readers = [TabularDataReader.from_path(path if r is t else r["path"]) for r in runs]
        if not self._same_types(readers):
            os.unlink(path)
            return
        self.stats["sortedness_faults"] += 1
        m = MergedTabularDataReader(readers, "score", descending=desc, reader_chunk_size=reader_chunk)
        try:
            out = m.read()
        except ValueError:
            return
        finally:
            try:
                os.unlink(path)
            except OSError:
                pass
        raise OracleViolation("unsorted_input_accepted", f"table merger accepted a run that is not sorted as declared "
                              f"({'row ' + str(i) + ' off by 1e-6' if tiny else 'rows ' + str(i) + ' and ' + str(j) + ' swapped'} in run "
                              f"{run_index % len(runs)}) and returned {len(out)} rows",
                              impl="table_merger", fmt=t["fmt"])


def run_ops(ops, workdir):
    """Replay an op list; raises OracleViolation.  The pseudo-op ["new_world", {}] starts a fresh world (new directory,
    no tables) in the same process: an op list with such markers is a *process history* (several independent
    histories executed one after the other by one interpreter)."""
    n = 0
    w = TabWorld(os.path.join(workdir, f"w{n}"))
    for op in ops:
        if op[0] == "new_world":
            n += 1
            w = TabWorld(os.path.join(workdir, f"w{n}"))
            continue
        w.apply(op)
    return w
