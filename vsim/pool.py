"""Fork-per-scenario process pool.

One warmed-up, single-threaded parent image (mokapot, pandas, numba JIT
already loaded/compiled); every scenario runs in a freshly forked child, so a
run is a pure function of (scenario dict, code) and never of what a pool slot
executed before.  Results come back as JSON over a pipe.  A wall timeout kills
the child and yields a HARNESS-TIMEOUT outcome (never exit 0, never VIOLATION).
"""

from __future__ import annotations

import faulthandler
import json
import os
import select
import shutil
import signal
import sys
import tempfile
import time
import traceback


def scratch_root():
    for cand in ("/dev/shm", os.environ.get("TMPDIR") or "", tempfile.gettempdir()):
        if cand and os.path.isdir(cand) and os.access(cand, os.W_OK):
            return cand
    return tempfile.gettempdir()


def native_thread_count():
    # jemalloc's background purge thread (started when libarrow is loaded) is
    # fork-safe (jemalloc installs pthread_atfork handlers) and is not counted.
    try:
        n = 0
        for t in os.listdir("/proc/self/task"):
            try:
                with open(f"/proc/self/task/{t}/comm") as fh:
                    if fh.read().strip() == "jemalloc_bg_thd":
                        continue
            except OSError:
                continue
            n += 1
        return n
    except OSError:
        import threading

        return threading.active_count()


_WARM = False


def warm_up():
    """Import everything and compile the numba kernels, without starting threads."""
    global _WARM
    if _WARM:
        return
    import numpy as np

    import mokapot  # noqa: F401
    import mokapot.brew_rollup  # noqa: F401
    import mokapot.mokapot  # noqa: F401
    from mokapot import qvalues

    s = np.array([3.0, 2.0, 1.0, 0.5], dtype=float)
    t = np.array([True, False, True, False])
    qvalues.tdc(s, t, desc=True)
    qvalues.tdc(s, t, desc=False)
    try:
        import triqler.qvality  # noqa: F401
    except Exception:  # noqa: BLE001
        pass
    import logging

    logging.disable(logging.CRITICAL)
    import warnings

    warnings.filterwarnings("ignore")
    from . import world

    world.install_entropy_seam()
    world.install_uninit_seam()
    _WARM = True


def _child_main(fn, arg, wfd, workdir, timeout):
    try:
        faulthandler.enable()
        if timeout:
            faulthandler.dump_traceback_later(max(1, timeout - 2), exit=False)
        os.makedirs(workdir, exist_ok=True)
        try:
            out = fn(arg, workdir)
            payload = {"ok": True, "result": out}
        except BaseException as exc:  # noqa: BLE001
            payload = {
                "ok": False,
                "error": f"{type(exc).__name__}: {exc}",
                "traceback": traceback.format_exc(),
            }
        data = json.dumps(payload, default=_json_default).encode()
        with os.fdopen(wfd, "wb") as fh:
            fh.write(data)
    finally:
        os._exit(0)


def _json_default(o):
    try:
        import numpy as np

        if isinstance(o, np.integer):
            return int(o)
        if isinstance(o, np.floating):
            return float(o)
        if isinstance(o, np.bool_):
            return bool(o)
        if isinstance(o, np.ndarray):
            return o.tolist()
    except Exception:  # noqa: BLE001
        pass
    if isinstance(o, (set, frozenset, tuple)):
        return sorted(o) if isinstance(o, (set, frozenset)) else list(o)
    if isinstance(o, os.PathLike):
        return os.fspath(o)
    return repr(o)


class Slot:
    __slots__ = ("pid", "rfd", "buf", "start", "key", "workdir")


def run_forked(fn, args_iter, n_procs=None, timeout=120, on_result=None, deadline=None):
    """Run fn(arg, workdir) for each (key, arg) of args_iter, each in its own fork.

    Yields nothing; calls on_result(key, outcome) in completion order where
    outcome is {"ok":True,"result":..} | {"ok":False,"error":..} |
    {"ok":False,"timeout":True} | {"ok":False,"died":exitcode}.
    Stops dispatching when time.time() > deadline.
    """
    n_procs = n_procs or int(os.environ.get("VERIF_PROCS", os.cpu_count() or 4))
    root = scratch_root()
    slots = {}
    it = iter(args_iter)
    exhausted = False
    seq = 0
    base = f"vsim-{os.getpid()}"
    try:
        while True:
            while not exhausted and len(slots) < n_procs:
                if deadline is not None and time.time() > deadline:
                    exhausted = True
                    break
                try:
                    key, arg = next(it)
                except StopIteration:
                    exhausted = True
                    break
                if native_thread_count() != 1:
                    raise RuntimeError(
                        f"pool parent has {native_thread_count()} native threads; cannot fork safely"
                    )
                rfd, wfd = os.pipe()
                seq += 1
                workdir = os.path.join(root, f"{base}-{seq}")
                pid = os.fork()
                if pid == 0:
                    os.close(rfd)
                    for s in slots.values():
                        try:
                            os.close(s.rfd)
                        except OSError:
                            pass
                    _child_main(fn, arg, wfd, workdir, timeout)
                os.close(wfd)
                s = Slot()
                s.pid, s.rfd, s.buf, s.start, s.key, s.workdir = pid, rfd, [], time.time(), key, workdir
                slots[rfd] = s
            if not slots:
                if exhausted:
                    break
                continue
            ready, _, _ = select.select(list(slots), [], [], 0.5)
            now = time.time()
            for rfd in ready:
                s = slots[rfd]
                chunk = os.read(rfd, 1 << 20)
                if chunk:
                    s.buf.append(chunk)
                    continue
                os.close(rfd)
                del slots[rfd]
                _, status = os.waitpid(s.pid, 0)
                shutil.rmtree(s.workdir, ignore_errors=True)
                raw = b"".join(s.buf)
                if raw:
                    try:
                        outcome = json.loads(raw)
                    except ValueError:
                        outcome = {"ok": False, "error": "unparsable child output"}
                else:
                    outcome = {"ok": False, "died": status}
                outcome["wall_s"] = now - s.start
                if on_result:
                    on_result(s.key, outcome)
            for rfd, s in list(slots.items()):
                if now - s.start > timeout:
                    try:
                        os.kill(s.pid, signal.SIGKILL)
                    except OSError:
                        pass
                    os.close(rfd)
                    del slots[rfd]
                    try:
                        os.waitpid(s.pid, 0)
                    except OSError:
                        pass
                    shutil.rmtree(s.workdir, ignore_errors=True)
                    if on_result:
                        on_result(s.key, {"ok": False, "timeout": True, "wall_s": now - s.start})
    finally:
        for rfd, s in list(slots.items()):
            try:
                os.kill(s.pid, signal.SIGKILL)
                os.waitpid(s.pid, 0)
            except OSError:
                pass
            try:
                os.close(rfd)
            except OSError:
                pass
            shutil.rmtree(s.workdir, ignore_errors=True)


def run_step(fn, arg, timeout=60):
    """Run fn(arg) in a forked grandchild (may be killed by a fault); returns
    {"ok":True,"result":..} | {"ok":False,"error":..,"etype":..} | {"killed":code} | {"timeout":True}.

    The calling process must not have started native threads (checked)."""
    faulthandler.cancel_dump_traceback_later()  # its watchdog is a native thread ...
    for _ in range(400):  # ... which needs a moment to exit after the cancel
        if native_thread_count() == 1:
            break
        time.sleep(0.005)
    if native_thread_count() != 1:
        raise RuntimeError(
            f"run_step: {native_thread_count()} native threads alive before fork"
        )
    rfd, wfd = os.pipe()
    pid = os.fork()
    if pid == 0:
        os.close(rfd)
        try:
            try:
                out = fn(arg)
                payload = {"ok": True, "result": out}
            except BaseException as exc:  # noqa: BLE001
                payload = {
                    "ok": False,
                    "etype": type(exc).__name__,
                    "error": f"{type(exc).__name__}: {exc}",
                    "traceback": traceback.format_exc(),
                }
            with os.fdopen(wfd, "wb") as fh:
                fh.write(json.dumps(payload, default=_json_default).encode())
        finally:
            os._exit(0)
    os.close(wfd)
    buf = []
    start = time.time()
    while True:
        r, _, _ = select.select([rfd], [], [], 0.5)
        if r:
            chunk = os.read(rfd, 1 << 20)
            if not chunk:
                break
            buf.append(chunk)
        elif time.time() - start > timeout:
            os.kill(pid, signal.SIGKILL)
            os.waitpid(pid, 0)
            os.close(rfd)
            return {"ok": False, "timeout": True}
    os.close(rfd)
    _, status = os.waitpid(pid, 0)
    raw = b"".join(buf)
    if raw:
        return json.loads(raw)
    code = os.waitstatus_to_exitcode(status)
    return {"ok": False, "killed": code}
