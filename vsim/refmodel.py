"""Small executable reference models used as oracles.

Written from the property statements, not from mokapot's code.
"""

from __future__ import annotations

import math

import numpy as np


# ------------------------------------------------------------------ C01 formula
def tdc_ref(scores, targets, desc=True):
    """q_i = min over thresholds t at-or-worse than s_i of
    min(1, (#decoys at-or-better than t + 1) / #targets at-or-better than t),
    1 where no target qualifies.  float64 throughout."""
    s = np.asarray(scores, dtype=float)
    t = np.asarray(targets, dtype=bool)
    n = len(s)
    if n == 0:
        return np.zeros(0)
    key = -s if desc else s
    order = np.argsort(key, kind="stable")
    ks = key[order]
    tt = t[order]
    cum_t = np.cumsum(tt)
    cum_d = np.cumsum(~tt)
    with np.errstate(divide="ignore", invalid="ignore"):
        fdr = np.where(cum_t > 0, (cum_d + 1) / np.maximum(cum_t, 1), 1.0)
    fdr = np.minimum(fdr, 1.0)
    # FDR of a tie group is that at the group's end
    is_end = np.r_[ks[1:] != ks[:-1], True]
    end_idx = np.where(is_end)[0]
    grp = np.searchsorted(end_idx, np.arange(n), side="left")
    fdr_at_end = fdr[end_idx]
    # running minimum from worst to best over groups
    qgrp = np.minimum.accumulate(fdr_at_end[::-1])[::-1]
    q_sorted = qgrp[grp]
    q = np.empty(n)
    q[order] = q_sorted
    return q


def near_threshold(qvals, thr, rel=1e-6):
    """True when some q-value lies so close to `thr` that float32 FDR
    arithmetic could put it on either side (scenario is uninformative)."""
    q = np.asarray(qvals, dtype=float)
    return bool(np.any(np.abs(q - thr) <= rel * max(thr, 1e-12) + 1e-9))


def accepted_targets(scores, targets, thr, desc=True):
    q = tdc_ref(scores, targets, desc)
    t = np.asarray(targets, dtype=bool)
    return int(np.sum((q <= thr) & t)), q


# ---------------------------------------------------------------- C10 parse model
RESERVED = ("specid", "scannr", "peptide", "proteins", "label")
LEVELS = ("modifiedpeptide", "precursor", "peptidegroup")
OPTIONAL = ("filename", "calcmass", "expmass", "ret_time")


def parse_model(table):
    """What a faithful parse of a well-formed table must yield."""
    cols = table["columns"]
    low = [c.lower() for c in cols]
    for r in RESERVED:
        if low.count(r) < 1:
            raise ValueError(f"missing required column {r}")
    by = {c.lower(): c for c in cols}
    lab_i = cols.index(by["label"])
    labels = [r[lab_i] for r in table["rows"]]
    targets = []
    for v in labels:
        if isinstance(v, bool):
            targets.append(v)
        else:
            iv = int(v)
            if iv not in (-1, 0, 1):
                raise ValueError("label out of range")
            targets.append(iv == 1)
    spectrum = [by[k] for k in ("filename", "scannr", "ret_time", "expmass") if k in by]
    nonfeat = set(RESERVED) | set(LEVELS) | set(OPTIONAL)
    feats = []
    for i, c in enumerate(cols):
        if c.lower() in nonfeat:
            continue
        vals = [r[i] for r in table["rows"]]
        if any(v is None or (isinstance(v, float) and math.isnan(v)) for v in vals):
            continue
        feats.append(c)
    return {
        "n_rows": len(table["rows"]),
        "targets": targets,
        "spectrum_columns": spectrum,
        "feature_columns": feats,
        "spectra_rows": [
            [r[cols.index(c)] for c in spectrum] for r in table["rows"]
        ],
    }


# ------------------------------------------------------- C03 competition / rollup
def table_records(table, scores):
    """Input rows as dicts keyed the way result files name things."""
    cols = table["columns"]
    m = table["meta"]
    idx = {c: cols.index(c) for c in cols}
    out = []
    for ri, r in enumerate(table["rows"]):
        lab = r[idx[m["label"]]]
        rec = {
            "row": ri,
            "PSMId": str(r[idx[m["specid"]]]),
            "target": bool(lab is True or (not isinstance(lab, bool) and int(lab) == 1)),
            "spectrum": tuple(r[idx[c]] for c in m["spectrum"]),
            "peptide": r[idx[m["peptide"]]],
            "proteinIds": r[idx[m["proteins"]]],
            "score": float(scores[ri]),
        }
        for lc in m["level_cols"]:
            rec[lc] = r[idx[lc]]
        out.append(rec)
    return out


def level_names(level_cols):
    """[(level name, key function name)] in mokapot's level order."""
    out = [("peptides", "peptide")]
    for lc in ("ModifiedPeptide", "Precursor", "PeptideGroup"):
        if lc in level_cols:
            out.append((lc.lower() + "s", lc))
    return out


def strict_competition(records, dedup=True, rollup=True, level_cols=()):
    """Deterministic expectation (no exact score ties inside any group).
    Returns {level: [records in non-increasing score order]}."""
    if dedup:
        best = {}
        for r in records:
            k = r["spectrum"]
            if k not in best or r["score"] > best[k]["score"]:
                best[k] = r
        retained = list(best.values())
    else:
        retained = list(records)
    out = {"psms": sorted(retained, key=lambda r: -r["score"])}
    if rollup:
        for lname, key in level_names(level_cols):
            best = {}
            for r in retained:
                k = r[key]
                if k not in best or r["score"] > best[k]["score"]:
                    best[k] = r
            out[lname] = sorted(best.values(), key=lambda r: -r["score"])
    return out
